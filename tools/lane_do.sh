#!/usr/bin/env bash
# tools/lane_do.sh reeval|retarget <seeded-name>: run tools/reeval_seeded.sh (all checks, re-confirming patch and
# demonstration) or tools/retarget_seeded.sh (target check only) on the first free of six lanes, each with its own
# cargo / monitor target directories (the driver builds lanes in independent shadow workspaces).
set -u
what="$1"; name="$2"
mkdir -p /tmp/sci-lanes
while true; do
  for lane in 0 1 2 3 4 5; do
    exec 8>"/tmp/sci-lanes/lane$lane.lock"
    if flock -n 8; then
      export EVAL_CARGO_TARGET="/tmp/sci-lanes/evt-$lane" EVAL_VERIF_TARGET="/verif/monitor/target-mut-$lane" VERIF_MUT_TARGET="/verif/monitor/target-mut-$lane"
      if [ "$what" = reeval ]; then /verif/tools/reeval_seeded.sh "$name" 2>&1 | grep -v -i conda; else /verif/tools/retarget_seeded.sh "$name" 2>&1 | grep -v -i conda; fi
      exit 0
    fi
    exec 8>&-
  done
  sleep 5
done
