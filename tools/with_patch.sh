#!/usr/bin/env bash
# tools/with_patch.sh <patch-file> <command...>
# Runs <command> with VERIF_REPO pointing at a scratch git worktree of /repo (HEAD) with the patch
# applied. The worktree and its build output are removed afterwards. Nothing under /repo changes.
set -u
patch="$(readlink -f "$1")"; shift
wt="$(mktemp -d /tmp/sci-wt-XXXXXX)"
rmdir "$wt"
git -C /repo worktree add -q --detach "$wt" HEAD || exit 3
cleanup() { git -C /repo worktree remove --force "$wt" >/dev/null 2>&1; rm -rf "$wt"; git -C /repo worktree prune; }
trap cleanup EXIT
if ! git -C "$wt" apply "$patch"; then echo "PATCH-DOES-NOT-APPLY $patch"; exit 3; fi
export VERIF_REPO="$wt"
# a separate target directory keeps the main one warm for /repo
export VERIF_TARGET="${VERIF_MUT_TARGET:-/verif/monitor/target-mut}"
"$@"
