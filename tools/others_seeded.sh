#!/usr/bin/env bash
# tools/others_seeded.sh <seeded-name>: run every quick check EXCEPT the targeted one (C01..C19) against an already
# confirmed seeded breakage that so far was evaluated with its target check only, and merge the exit codes into
# meta.json (checks_exit_codes, caught_by) and checks.txt in one step at the end: an interrupted run leaves the filed
# record as it was. Uses one scratch worktree for all checks (tools/with_patch.sh).
set -u
name="$1"; id="${name%%-*}"
d="/verif/seeded/$name"
res="$(mktemp /tmp/sci-others-XXXXXX)"
VERIF_MUT_TARGET="${VERIF_MUT_TARGET:-/verif/monitor/target-mut-0}" /verif/tools/with_patch.sh "$d/patch.diff" bash -c '
  for c in $(seq -f "C%02g" 1 19); do
    [ "$c" = "'"$id"'" ] && continue
    o="$(/verif/check "$c" --tier quick --out "'"$d"'/evidence-$c.json" --replays "'"$d"'/replays-$c" 2>&1)"; rc=$?
    sigs="$(printf "%s\n" "$o" | grep -o "signature=[^ ]*" | head -n 3 | tr "\n" " ")"
    rm -f "'"$d"'/evidence-$c.json"; [ "$rc" = 1 ] || rm -rf "'"$d"'/replays-$c"
    echo "$c $rc $sigs"
  done' > "$res" 2>/dev/null
python3 - "$d" "$res" <<'PY'
import json,sys,os
d,res=sys.argv[1:3]
rows=[l.split(None,2) for l in open(res).read().splitlines() if l[:1]=='C' and len(l.split())>=2 and l.split()[1].isdigit()]
if len(rows) < 18:
    print(os.path.basename(d), "incomplete run, record left unchanged", len(rows)); sys.exit(1)
p=os.path.join(d,'meta.json'); m=json.load(open(p))
lines={}
f=os.path.join(d,'checks.txt')
if os.path.exists(f):
    for l in open(f).read().splitlines():
        if l.strip(): lines[l.split()[0]]=l
for r in rows:
    c,rc=r[0],int(r[1]); sig=r[2] if len(r)>2 else ''
    m['checks_exit_codes'][c]=rc
    lines[c]=f"{c} exit={rc} {sig}".rstrip()
m['caught_by']=sorted(c for c,rc in m['checks_exit_codes'].items() if rc==1)
m['all_checks_run']=True
json.dump(m,open(p,'w'),indent=1)
open(f,'w').write("\n".join(lines[k] for k in sorted(lines))+"\n")
print(os.path.basename(d), "caught_by", m['caught_by'], "inconclusive", [c for c,rc in m['checks_exit_codes'].items() if rc>=2])
PY
rm -f "$res"
