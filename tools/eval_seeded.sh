#!/usr/bin/env bash
# tools/eval_seeded.sh <property-id> <k> <dir-with-mutant<k>.patch,demo<k>.rs,meta<k>.json> [all|target] [out-index]
# Confirms a seeded breakage independently (suite passes with it, demonstration fails with it and
# passes without it), runs the checks against it, and files it under /verif/seeded/<id>-<k>/.
set -u
id="$1"; k="$2"; src="$3"; mode="${4:-target}"; outk="${5:-$k}"
out="/verif/seeded/$id-$outk"; mkdir -p "$out"
cp "$src/mutant$k.patch" "$out/patch.diff"; cp "$src/demo$k.rs" "$out/demo.rs" 2>/dev/null; cp "$src/meta$k.json" "$out/agent_meta.json" 2>/dev/null
demoflags=""; [ -f "$src/demoflags$k" ] && demoflags="$(cat "$src/demoflags$k")" && echo "$demoflags" > "$out/demo_cargo_flags.txt"
wt="$(mktemp -d /tmp/sci-eval-XXXXXX)"; rmdir "$wt"
git -C /repo worktree add -q --detach "$wt" HEAD || exit 3
cleanup() { git -C /repo worktree remove --force "$wt" >/dev/null 2>&1; rm -rf "$wt"; git -C /repo worktree prune; }
trap cleanup EXIT
export CARGO_TARGET_DIR="${EVAL_CARGO_TARGET:-/tmp/seed/target-eval}" CARGO_NET_OFFLINE=true
log="$out/confirm.log"; : > "$log"
applies=yes; git -C "$wt" apply "$out/patch.diff" 2>>"$log" || applies=no
suite=skipped; demo_with=skipped; demo_without=skipped
if [ $applies = yes ]; then
  (cd "$wt" && cargo test --workspace --no-fail-fast --offline >>"$log" 2>&1) && suite=pass || suite=FAIL
  if [ -f "$out/demo.rs" ]; then
    cp "$out/demo.rs" "$wt/tests/demo.rs"
    (cd "$wt" && cargo test --offline $demoflags --test demo >>"$log" 2>&1) && demo_with=pass || demo_with=fail
    git -C "$wt" checkout -q -- src
    (cd "$wt" && cargo test --offline $demoflags --test demo >>"$log" 2>&1) && demo_without=pass || demo_without=fail
    rm -f "$wt/tests/demo.rs"
    git -C "$wt" apply "$out/patch.diff"
  fi
fi
unset CARGO_TARGET_DIR
# run the checks against the mutant
results=""
if [ $applies = yes ]; then
  if [ "$mode" = all ]; then ids=$(seq -f "C%02g" 1 19); [ "$id" = C20 ] && ids="$ids C20"; else ids="$id"; fi
  for c in $ids; do
    o="$(cd /verif && VERIF_REPO="$wt" VERIF_TARGET="${EVAL_VERIF_TARGET:-/verif/monitor/target-mut}" ./check "$c" --tier quick --out "$out/evidence-$c.json" --replays "$out/replays-$c" 2>&1)"; rc=$?
    sigs="$(printf '%s\n' "$o" | grep -o 'signature=[^ ]*' | head -n 3 | tr '\n' ' ')"
    results="$results$c:$rc "
    printf '%s exit=%s %s\n' "$c" "$rc" "$sigs" >> "$out/checks.txt"
    [ "$rc" = 1 ] || rm -rf "$out/evidence-$c.json" "$out/replays-$c"
    rm -f "$out/evidence-$c.json"
  done
fi
python3 - "$out" "$id" "$outk" "$applies" "$suite" "$demo_with" "$demo_without" "$results" <<'PY'
import json,sys,os
out,pid,k,applies,suite,dw,dwo,results=sys.argv[1:9]
agent={}
try: agent=json.load(open(os.path.join(out,'agent_meta.json')))
except Exception: pass
res={c.split(':')[0]:int(c.split(':')[1]) for c in results.split()}
meta={"property":pid,"mutant":int(k),"summary":agent.get("summary"),"needs_to_manifest":agent.get("needs_to_manifest"),
 "confirmed_by_me":{"patch_applies_to_repo_HEAD":applies,"existing_suite_with_mutant":suite,"demo_with_mutant":dw,"demo_without_mutant":dwo,
   "commands":["git apply patch.diff","cargo test --workspace --no-fail-fast --offline","cargo test --offline <demo_cargo_flags.txt if present> --test demo (with / without the patch)","VERIF_REPO=<worktree> ./check <ID> --tier quick"]},
 "checks_exit_codes":res,"caught_by":[c for c,r in res.items() if r==1],"kept": applies=="yes" and suite=="pass" and dw=="fail" and dwo=="pass"}
json.dump(meta,open(os.path.join(out,'meta.json'),'w'),indent=1)
print(pid,k,"applies",applies,"suite",suite,"demo with/without",dw,dwo,"checks",results)
PY
