#!/usr/bin/env bash
# tools/benign.sh [patch-name ...]: false-alarm probes. Each patch under tools/benign/ is a behaviour-preserving
# refactor of the crate (algebraic rearrangements with ulp-level differences, equivalent rewrites of set
# predicates, another sort, a tighter stopping rule). For each: the pinned suite must pass and EVERY quick check
# must stay silent (exit 0). Writes tools/benign_report.md. Development aid (not a registered command).
set -u
cd /verif
names=("$@"); [ ${#names[@]} -gt 0 ] || names=($(ls tools/benign/*.patch | xargs -n1 basename | sed 's/\.patch$//'))
tgt="${BENIGN_TARGET:-/verif/monitor/target-mut-9}"
rep=tools/benign_report.md
{ echo "| benign change | pinned suite | checks that raised an alarm (must be none) | inconclusive |"; echo "|---|---|---|---|"; } > "$rep.new"
for nm in "${names[@]}"; do
  p="/verif/tools/benign/$nm.patch"
  wt="$(mktemp -d /tmp/sci-benign-XXXXXX)"; rmdir "$wt"
  git -C /repo worktree add -q --detach "$wt" HEAD || exit 3
  git -C "$wt" apply "$p" || { echo "$nm: patch does not apply"; git -C /repo worktree remove --force "$wt"; continue; }
  suite=FAIL
  (cd "$wt" && CARGO_TARGET_DIR=/tmp/sci-benign-target cargo test --workspace --no-fail-fast --offline >/tmp/sci-benign-suite.log 2>&1) && suite=pass
  alarms=""; inc=""
  for c in $(seq -f "C%02g" 1 20); do
    VERIF_REPO="$wt" VERIF_TARGET="$tgt" ./check "$c" --tier quick --out "/tmp/sci-benign-$c.json" --replays "/tmp/sci-benign-replays" > "/tmp/sci-benign-$c.out" 2>&1; rc=$?
    [ $rc = 1 ] && alarms="$alarms $c($(grep -o 'signature=[^ ]*' /tmp/sci-benign-$c.out | head -n1))"
    [ $rc -ge 2 ] && inc="$inc $c"
    rm -rf "/tmp/sci-benign-$c.json" /tmp/sci-benign-replays
  done
  echo "| $nm | $suite | ${alarms:-none} | ${inc:-none} |" | tee -a "$rep.new"
  git -C /repo worktree remove --force "$wt" >/dev/null 2>&1; rm -rf "$wt"; git -C /repo worktree prune
done
rm -rf /tmp/sci-benign-target
mv "$rep.new" "$rep"
