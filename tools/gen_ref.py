#!/usr/bin/env python3-vt
"""Regenerates /verif/monitor/ref/dist.json: 40-digit reference values (mpmath) used by the
monitor's oracle self-test at every start. Provenance only: no registered command needs Python."""
import json, sys
from mpmath import mp, mpf, betainc, erfc, sqrt, findroot, binomial, quad, gamma, pi, power

mp.dps = 50

def t_cdf(t, nu):
    t = mpf(t); nu = mpf(nu)
    x = nu / (nu + t * t)
    tail = betainc(nu / 2, mpf(1) / 2, 0, x, regularized=True) / 2
    return 1 - tail if t > 0 else tail

def t_pdf(t, nu):
    t = mpf(t); nu = mpf(nu)
    return gamma((nu + 1) / 2) / (sqrt(nu * pi) * gamma(nu / 2)) * power(1 + t * t / nu, -(nu + 1) / 2)

def norm_cdf(x):
    return erfc(-mpf(x) / sqrt(2)) / 2

def norm_ppf(p):
    p = mpf(p)
    from mpmath import erfinv
    return sqrt(2) * erfinv(2 * p - 1)

def t_ppf(p, nu):
    p = mpf(p); nu = mpf(nu)
    # bisection then secant on cdf
    lo, hi = mpf(0), mpf(1)
    if p < mpf(1) / 2:
        return -t_ppf(1 - p, nu)
    while t_cdf(hi, nu) < p:
        hi *= 2
    for _ in range(400):
        mid = (lo + hi) / 2
        if t_cdf(mid, nu) < p:
            lo = mid
        else:
            hi = mid
        if hi - lo < mpf(10) ** -42 * hi:
            break
    return (lo + hi) / 2

def s(x):
    return mp.nstr(x, 40)

nus = [0.5, 1, 1.5, 2, 2.37, 3, 4, 5, 7.25, 10, 30, 99, 100.5, 1000, 5000.3, 1e4, 2e4, 99999, 1e5, 109999.5, 2e5]
ts = [-12, -4.5, -2.2, -1, -0.3, -1e-3, 0.01, 0.2, 0.7, 1.3, 1.96, 2.6, 3.3, 4.4, 6, 9, 12, 40, 300, 6000]
out = {"t_cdf": [], "t_ppf": [], "norm_cdf": [], "norm_ppf": [], "binom": []}
for nu in nus:
    for t in ts:
        out["t_cdf"].append([float(nu), float(t), s(t_cdf(t, nu))])
ps = [0.001, 0.01, 0.1, 0.25, 0.4, 0.5005, 0.6, 0.75, 0.9, 0.95, 0.975, 0.99, 0.995, 0.9995, 0.9999, 0.99995]
for nu in nus:
    for p in ps:
        out["t_ppf"].append([float(nu), float(p), s(t_ppf(mpf(float(p)), mpf(float(nu))))])
for x in [-8, -6, -4, -3, -2, -1, -0.5, -1e-3, 0, 0.1, 0.5, 1, 1.5, 2, 2.5, 3, 3.7, 4, 5, 6, 8]:
    out["norm_cdf"].append([float(x), s(norm_cdf(x))])
for p in ps + [1e-6, 1e-9, 0.3, 0.5, 0.7, 1 - 1e-6, 0.999999999]:
    out["norm_ppf"].append([float(p), s(norm_ppf(mpf(float(p))))])
for n in [4, 10, 25, 30, 100, 400, 1000, 5000]:
    for p in [0.003, 0.05, 0.2, 0.5, 0.731, 0.9, 0.999]:
        pm = mpf(float(p))
        ks = sorted(set([0, 1, n // 4, int(n * p), min(n, int(n * p) + 1), n // 2, n - 1, n]))
        for k in ks:
            out["binom"].append([n, float(p), k, s(binomial(n, k) * pm ** k * (1 - pm) ** (n - k))])
json.dump(out, open(sys.argv[1] if len(sys.argv) > 1 else "/verif/monitor/ref/dist.json", "w"), indent=0)
print({k: len(v) for k, v in out.items()})
