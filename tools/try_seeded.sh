#!/usr/bin/env bash
# tools/try_seeded.sh <seeded-name e.g. C05-5> [check-id (default: its property)] [seed] : run one quick check against
# one filed seeded breakage in a scratch worktree; prints the verdict line and up to 3 signatures. Development aid.
set -u
name="$1"; id="${2:-${name%%-*}}"; seed="${3:-1}"
o="$(VERIF_SEED=$seed VERIF_MUT_TARGET="${VERIF_MUT_TARGET:-/verif/monitor/target-mut-0}" /verif/tools/with_patch.sh "/verif/seeded/$name/patch.diff" /verif/check "$id" --tier quick --out "/tmp/try-$name-$id.json" --replays "/tmp/try-$name-$id-replays" 2>&1)"; rc=$?
printf '%s\n' "$o" | grep -E '^(OK|FAIL|INCONCLUSIVE)' | head -n 3
printf '%s\n' "$o" | grep -o 'signature=[^ ]*' | head -n 3
rm -rf "/tmp/try-$name-$id.json" "/tmp/try-$name-$id-replays"
echo "$name $id seed=$seed exit=$rc"
