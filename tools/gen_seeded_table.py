#!/usr/bin/env python3
"""Regenerates the catch table of DESIGN.md section 12.6 from /verif/seeded/*/meta.json
(between the SEEDED-TABLE markers) and prints a summary."""
import json, glob, os, re, sys
rows = []
stats = {"kept": 0, "target": 0, "none": 0, "outside": 0}
for d in sorted(glob.glob('/verif/seeded/C*-*')):
    f = os.path.join(d, 'meta.json')
    if not os.path.exists(f):
        continue
    m = json.load(open(f))
    name = os.path.basename(d)
    am = {}
    try:
        am = json.load(open(os.path.join(d, 'agent_meta.json')))
    except Exception:
        pass
    def cut(s, n):
        s = re.sub(r'\s+', ' ', (s or '').replace('|', '/')).strip()
        return s if len(s) <= n else s[:n].rstrip() + '...'
    summ = cut(m.get('summary') or am.get('summary'), 150)
    need = cut(m.get('needs_to_manifest') or am.get('needs_to_manifest'), 140)
    cb = m.get('caught_by', [])
    outside = m.get('violates_property_as_stated') is False
    stats["kept"] += 1 if m.get('kept') else 0
    if m['property'] in cb:
        stats["target"] += 1
    if not cb:
        stats["none"] += 1
    if outside:
        stats["outside"] += 1
    caught = ', '.join(cb) if cb else ('— (outside the quantifier, see text)' if outside else '— (none)')
    rows.append(f"| {name} | {summ} | {need} | {caught} |")
table = "| seeded change | what it changes | what it needs to manifest | caught by (quick tier, final) |\n|---|---|---|---|\n" + "\n".join(rows) + "\n"
p = '/verif/DESIGN.md'
s = open(p).read()
b, e = '<!-- SEEDED-TABLE-BEGIN -->\n', '<!-- SEEDED-TABLE-END -->\n'
if b in s and e in s:
    s = s[:s.index(b) + len(b)] + table + s[s.index(e):]
    open(p, 'w').write(s)
print(len(rows), "rows;", stats)
