#!/usr/bin/env bash
# tools/reeval_seeded.sh <seeded-subdir-name e.g. C04-2>: re-confirms and re-runs all quick checks for an
# already filed seeded breakage (uses its own patch.diff / demo.rs / agent_meta.json).
set -u
name="$1"; id="${name%%-*}"; k="${name##*-}"
d="/verif/seeded/$name"
tmp="$(mktemp -d /tmp/sci-reeval-XXXXXX)"
cp "$d/patch.diff" "$tmp/mutant1.patch"; cp "$d/demo.rs" "$tmp/demo1.rs" 2>/dev/null
cp "$d/agent_meta.json" "$tmp/meta1.json" 2>/dev/null || echo '{}' > "$tmp/meta1.json"
[ -f "$d/demo_cargo_flags.txt" ] && cp "$d/demo_cargo_flags.txt" "$tmp/demoflags1"
note=""; [ -f "$d/meta.json" ] && note="$(python3 -c "import json;m=json.load(open('$d/meta.json'));print(json.dumps({k:m[k] for k in ('note','violates_property_as_stated') if k in m}))")"
rm -f "$d/checks.txt" "$d/meta.json"
/verif/tools/eval_seeded.sh "$id" 1 "$tmp" all "$k"
if [ -n "$note" ] && [ "$note" != "{}" ]; then python3 - "$d/meta.json" "$note" <<'PY'
import json,sys
m=json.load(open(sys.argv[1])); m.update(json.loads(sys.argv[2])); json.dump(m,open(sys.argv[1],'w'),indent=1)
PY
fi
rm -rf "$tmp"
