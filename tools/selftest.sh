#!/usr/bin/env bash
# tools/selftest.sh [tier]: applies each mutant of tools/mutants/index.json to a scratch worktree of /repo,
# runs the matching check against it and expects exit 1 with a VIOLATION line. Writes
# tools/mutation_report.md. Scratch worktrees are removed by tools/with_patch.sh.
cd "$(dirname "$0")/.."
tier="${1:-quick}"
report=tools/mutation_report.md
{
echo "# Sensitivity self-test ($tier tier) — hand-written mutants from tools/mutants/"
echo
echo "| mutant | target | what it changes | expected | check exit | verdict | first signature |"
echo "|---|---|---|---|---|---|---|"
} > "$report"
python3 - <<'PY' > /tmp/selftest.list
import json
for m in json.load(open('tools/mutants/index.json')): print(m['name'], m['property'], m['note'].replace('|','/'), m.get('expect','violation'), sep='\t')
PY
export VERIF_MUT_TARGET="${VERIF_MUT_TARGET:-/verif/monitor/target-dev}"
bad=0
while IFS=$'\t' read -r name prop note expect; do
  out="$(tools/with_patch.sh "tools/mutants/$name.patch" ./check "$prop" --tier "$tier" --out /tmp/selftest-ev.json --replays /tmp/selftest-replays 2>&1)"; rc=$?
  sig="$(printf '%s\n' "$out" | grep -o 'signature=[^ ]*' | head -n 1 | sed 's/|/\\|/g')"
  if { [ "$expect" = violation ] && [ "$rc" = 1 ]; } || { [ "$expect" = silent ] && [ "$rc" = 0 ]; }; then v=as-expected; else v=UNEXPECTED; bad=$((bad+1)); fi
  echo "| $name | $prop | $note | $expect | $rc | $v | ${sig:-—} |" >> "$report"
  echo "$name $prop expect=$expect exit=$rc $v $sig"
done < /tmp/selftest.list
rm -rf /tmp/selftest-ev.json /tmp/selftest-replays /tmp/selftest.list
echo "unexpected outcomes: $bad"; [ $bad -eq 0 ]
