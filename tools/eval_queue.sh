#!/usr/bin/env bash
# tools/eval_queue.sh <round-dir> <ID> <k> [all|target]: evaluate one seeded breakage (tools/eval_seeded.sh) on the first
# free of four lanes (each lane has its own cargo and monitor target directories, so lanes run side by side).
set -u
round="$1"; id="$2"; k="$3"; mode="${4:-all}"
while true; do
  for lane in 0 1 2 3; do
    exec 8>"$round/lane$lane.lock"
    if flock -n 8; then
      EVAL_CARGO_TARGET="$round/evt-$lane" EVAL_VERIF_TARGET="/verif/monitor/target-mut-$lane" /verif/tools/eval_seeded.sh "$id" "$k" "$round/$id/out" "$mode" 2>&1 | grep -v -i conda
      exit 0
    fi
    exec 8>&-
  done
  sleep 7
done
