#!/usr/bin/env python3-vt
"""Oracle audit (development aid, DESIGN.md 6.3): recompute with exact fractions + 40-digit mpmath the
reference bounds of events dumped by `VERIF_TRACE=<file> ./check C01 --tier quick` and compare them with the
expected values the Rust oracle used. Usage: tools/audit_oracles.py <tracefile> [max_events]"""
import sys, random
from fractions import Fraction
from mpmath import mp, mpf, betainc, sqrt, findroot
mp.dps = 40
def t_cdf(t, nu):
    t = mpf(t); nu = mpf(nu)
    x = nu / (nu + t * t)
    tail = betainc(nu / 2, mpf(1) / 2, 0, x, regularized=True) / 2
    return 1 - tail if t > 0 else tail
def t_ppf(p, nu):
    p = mpf(p)
    if p == mpf(1)/2: return mpf(0)
    if p < mpf(1)/2: return -t_ppf(1 - p, nu)
    lo, hi = mpf(0), mpf(1)
    while t_cdf(hi, nu) < p: hi *= 2
    for _ in range(200):
        mid = (lo + hi) / 2
        if t_cdf(mid, nu) < p: lo = mid
        else: hi = mid
    return (lo + hi) / 2
rows = [l.split() for l in open(sys.argv[1]) if l.startswith('C01 ')]
random.seed(1); random.shuffle(rows)
maxn = int(sys.argv[2]) if len(sys.argv) > 2 else 300
worst = 0; n_ok = 0
for r in rows[:maxn]:
    _, ty, kind, level, olo, ohi, elo, ehi, ratio, data = r
    xs = [Fraction(float(x)) for x in data.split(',')]
    n = len(xs); level = float(level)
    mean = sum(xs) / n
    var = sum((x - mean) ** 2 for x in xs) / (n - 1)
    if var == 0: continue
    target = 1 - (1 - mpf(level)) / 2 if kind == 'two-sided' else mpf(level)
    c = t_ppf(target, n - 1)
    se = sqrt(mpf(var.numerator) / mpf(var.denominator)) / sqrt(n)
    m = mpf(mean.numerator) / mpf(mean.denominator)
    lo, hi = m - c * se, m + c * se
    scale = abs(m) + abs(c * se)
    for mine, theirs in ((lo, float(elo)), (hi, float(ehi))):
        d = abs(mine - mpf(theirs)) / scale
        worst = max(worst, d)
    n_ok += 1
print(f"audited {n_ok} events; worst relative difference between the Rust oracle's expected bounds and the mpmath/Fraction recomputation: {mp.nstr(worst, 5)}")
sys.exit(0 if worst < 1e-11 else 1)
