#!/usr/bin/env bash
# tools/retarget_seeded.sh <seeded-name> [seed]: re-run only the check of the targeted property (quick tier)
# against an already confirmed seeded breakage and update meta.json (checks_exit_codes[target], caught_by,
# and for seeds other than 1 the field target_check_exit_at_seeds). Patch and demonstration are not
# re-confirmed (tools/reeval_seeded.sh does that).
set -u
name="$1"; seed="${2:-1}"; id="${name%%-*}"
d="/verif/seeded/$name"
o="$(VERIF_SEED=$seed VERIF_MUT_TARGET="${VERIF_MUT_TARGET:-/verif/monitor/target-mut-0}" /verif/tools/with_patch.sh "$d/patch.diff" /verif/check "$id" --tier quick --out "$d/evidence-$id.json" --replays "$d/replays-$id" 2>&1)"; rc=$?
sigs="$(printf '%s\n' "$o" | grep -o 'signature=[^ ]*' | head -n 3 | tr '\n' ' ')"
rm -f "$d/evidence-$id.json"; [ "$rc" = 1 ] || rm -rf "$d/replays-$id"
python3 - "$d" "$id" "$seed" "$rc" "$sigs" <<'PY'
import json,sys,os
d,pid,seed,rc,sigs=sys.argv[1:6]; rc=int(rc); seed=int(seed)
p=os.path.join(d,'meta.json'); m=json.load(open(p))
if seed==1:
    m['checks_exit_codes'][pid]=rc
    cb=set(m.get('caught_by',[])); (cb.add(pid) if rc==1 else cb.discard(pid)); m['caught_by']=sorted(cb)
    lines=[]
    f=os.path.join(d,'checks.txt')
    if os.path.exists(f):
        lines=[l for l in open(f).read().splitlines() if not l.startswith(pid+' ')]
    lines.append(f"{pid} exit={rc} {sigs}")
    open(f,'w').write("\n".join(sorted(lines))+"\n")
t=m.get('target_check_exit_at_seeds',{}) if isinstance(m.get('target_check_exit_at_seeds'),dict) else {}
t[str(seed)]=rc; m['target_check_exit_at_seeds']=t
json.dump(m,open(p,'w'),indent=1)
print(os.path.basename(d),pid,"seed",seed,"exit",rc,sigs[:160])
PY
