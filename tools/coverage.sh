#!/usr/bin/env bash
# tools/coverage.sh [tier]: which lines of /repo/src do the monitors actually execute?
# Builds the monitor (and through it the crate) with -Cinstrument-coverage on the nightly toolchain in a
# separate target directory, runs every check's quick (or given) tier, merges the profiles and writes
# tools/coverage_report.md: per source file the share of executed lines, and every non-test line of the crate
# that no monitor reached. A development aid (blind-spot finder); no registered command depends on it.
set -u
tier="${1:-quick}"
T=/verif/monitor/target-cov
BIN="$HOME/.rustup/toolchains/nightly-x86_64-unknown-linux-gnu/lib/rustlib/x86_64-unknown-linux-gnu/bin"
rm -rf "$T/prof"; mkdir -p "$T/prof"
export RUSTUP_TOOLCHAIN=nightly RUSTFLAGS="-Cinstrument-coverage" VERIF_TARGET="$T" LLVM_PROFILE_FILE="$T/prof/%p-%8m.profraw"
cd /verif
for i in $(seq -f "C%02g" 1 20); do
  ./check "$i" --tier "$tier" --out "$T/ev-$i.json" --replays "$T/replays-$i" 2>&1 | tail -n 1 | cut -c1-150
done
"$BIN/llvm-profdata" merge -sparse "$T"/prof/*.profraw -o "$T/all.profdata" || exit 2
objs=""; for b in "$T/release/sci-monitor" "$T/wrapping/sci-monitor" "$T"/c20/sci-feat-*; do [ -x "$b" ] && objs="$objs -object $b"; done
"$BIN/llvm-cov" export -format=lcov -instr-profile "$T/all.profdata" $objs > "$T/all.lcov" 2>/dev/null
python3 - "$T/all.lcov" "${VERIF_REPO:-/repo}" > /verif/tools/coverage_report.md <<'PY'
import sys,re,os,collections
lcov,repo=sys.argv[1:3]
hits=collections.defaultdict(dict)
cur=None
for l in open(lcov):
    l=l.strip()
    if l.startswith('SF:'): cur=l[3:]
    elif l.startswith('DA:') and cur and cur.startswith(repo+'/src/'):
        n,c=l[3:].split(',')[:2]; n=int(n); c=int(c)
        hits[cur][n]=max(hits[cur].get(n,0),c)
print("# Lines of the crate executed by the monitors (all twenty checks, instrumented build)\n")
print("| file | instrumented non-test lines | executed | never executed |\n|---|---|---|---|")
missing={}
for f in sorted(hits):
    src=open(f).read().splitlines()
    # test modules start at `#[cfg(test)]` and run to the end of the file in this crate
    cut=len(src)+1
    for i,s in enumerate(src,1):
        if s.strip()=='#[cfg(test)]' and i+1<=len(src) and 'mod test' in src[i]: cut=i; break
    ls={n:c for n,c in hits[f].items() if n<cut}
    miss=sorted(n for n,c in ls.items() if c==0)
    missing[f]=[(n,src[n-1]) for n in miss]
    print(f"| {os.path.relpath(f,repo)} | {len(ls)} | {len(ls)-len(miss)} | {len(miss)} |")
print()
for f,m in missing.items():
    if not m: continue
    print(f"## {os.path.relpath(f,repo)}: lines never executed\n\n```")
    for n,s in m: print(f"{n:5d}  {s}")
    print("```\n")
PY
head -n 20 /verif/tools/coverage_report.md
