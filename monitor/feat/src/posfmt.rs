//! A minimal *positional* (non-self-describing) serde format, written for this monitor: values are encoded
//! in declaration order without field names, type tags or struct lengths (the family of bincode / postcard).
//! JSON and CBOR are self-describing; a derive attribute that only works when the format can be asked
//! "what comes next?" (`flatten`, `untagged`, `deserialize_any`, skipped fields without a default, maps of
//! unknown length) round-trips through those two and fails here. No crate of that family is available
//! offline, hence this one. Little endian, u64 lengths, u32 variant indices.

use serde::de::{self, DeserializeSeed, EnumAccess, IntoDeserializer, MapAccess, SeqAccess, VariantAccess, Visitor};
use serde::ser::{self, Serialize};
use std::fmt;

#[derive(Debug)]
pub struct Error(pub String);
impl fmt::Display for Error {
    fn fmt(&self, f: &mut fmt::Formatter<'_>) -> fmt::Result {
        f.write_str(&self.0)
    }
}
impl std::error::Error for Error {}
impl ser::Error for Error {
    fn custom<T: fmt::Display>(m: T) -> Self {
        Error(m.to_string())
    }
}
impl de::Error for Error {
    fn custom<T: fmt::Display>(m: T) -> Self {
        Error(m.to_string())
    }
}

pub fn to_bytes<T: Serialize>(v: &T) -> Result<Vec<u8>, Error> {
    let mut s = Ser { out: vec![] };
    v.serialize(&mut s)?;
    Ok(s.out)
}

pub fn from_bytes<T: de::DeserializeOwned>(b: &[u8]) -> Result<T, Error> {
    let mut d = De { input: b };
    let v = T::deserialize(&mut d)?;
    if !d.input.is_empty() {
        return Err(Error(format!("{} trailing bytes", d.input.len())));
    }
    Ok(v)
}

pub struct Ser {
    out: Vec<u8>,
}

macro_rules! ser_num {
    ($f:ident, $t:ty) => {
        fn $f(self, v: $t) -> Result<(), Error> {
            self.out.extend_from_slice(&v.to_le_bytes());
            Ok(())
        }
    };
}

impl<'a> ser::Serializer for &'a mut Ser {
    type Ok = ();
    type Error = Error;
    type SerializeSeq = Self;
    type SerializeTuple = Self;
    type SerializeTupleStruct = Self;
    type SerializeTupleVariant = Self;
    type SerializeMap = Self;
    type SerializeStruct = Self;
    type SerializeStructVariant = Self;

    fn is_human_readable(&self) -> bool {
        false
    }
    fn serialize_bool(self, v: bool) -> Result<(), Error> {
        self.out.push(v as u8);
        Ok(())
    }
    ser_num!(serialize_i8, i8);
    ser_num!(serialize_i16, i16);
    ser_num!(serialize_i32, i32);
    ser_num!(serialize_i64, i64);
    ser_num!(serialize_i128, i128);
    ser_num!(serialize_u8, u8);
    ser_num!(serialize_u16, u16);
    ser_num!(serialize_u32, u32);
    ser_num!(serialize_u64, u64);
    ser_num!(serialize_u128, u128);
    fn serialize_f32(self, v: f32) -> Result<(), Error> {
        self.out.extend_from_slice(&v.to_bits().to_le_bytes());
        Ok(())
    }
    fn serialize_f64(self, v: f64) -> Result<(), Error> {
        self.out.extend_from_slice(&v.to_bits().to_le_bytes());
        Ok(())
    }
    fn serialize_char(self, v: char) -> Result<(), Error> {
        self.serialize_u32(v as u32)
    }
    fn serialize_str(self, v: &str) -> Result<(), Error> {
        self.serialize_bytes(v.as_bytes())
    }
    fn serialize_bytes(self, v: &[u8]) -> Result<(), Error> {
        self.out.extend_from_slice(&(v.len() as u64).to_le_bytes());
        self.out.extend_from_slice(v);
        Ok(())
    }
    fn serialize_none(self) -> Result<(), Error> {
        self.out.push(0);
        Ok(())
    }
    fn serialize_some<T: ?Sized + Serialize>(self, v: &T) -> Result<(), Error> {
        self.out.push(1);
        v.serialize(self)
    }
    fn serialize_unit(self) -> Result<(), Error> {
        Ok(())
    }
    fn serialize_unit_struct(self, _: &'static str) -> Result<(), Error> {
        Ok(())
    }
    fn serialize_unit_variant(self, _: &'static str, idx: u32, _: &'static str) -> Result<(), Error> {
        self.serialize_u32(idx)
    }
    fn serialize_newtype_struct<T: ?Sized + Serialize>(self, _: &'static str, v: &T) -> Result<(), Error> {
        v.serialize(self)
    }
    fn serialize_newtype_variant<T: ?Sized + Serialize>(self, _: &'static str, idx: u32, _: &'static str, v: &T) -> Result<(), Error> {
        self.out.extend_from_slice(&idx.to_le_bytes());
        v.serialize(self)
    }
    fn serialize_seq(self, len: Option<usize>) -> Result<Self, Error> {
        let n = len.ok_or_else(|| Error("a sequence of unknown length cannot be encoded positionally".into()))?;
        self.out.extend_from_slice(&(n as u64).to_le_bytes());
        Ok(self)
    }
    fn serialize_tuple(self, _: usize) -> Result<Self, Error> {
        Ok(self)
    }
    fn serialize_tuple_struct(self, _: &'static str, _: usize) -> Result<Self, Error> {
        Ok(self)
    }
    fn serialize_tuple_variant(self, _: &'static str, idx: u32, _: &'static str, _: usize) -> Result<Self, Error> {
        self.out.extend_from_slice(&idx.to_le_bytes());
        Ok(self)
    }
    fn serialize_map(self, len: Option<usize>) -> Result<Self, Error> {
        let n = len.ok_or_else(|| Error("a map of unknown length cannot be encoded positionally (serde(flatten)?)".into()))?;
        self.out.extend_from_slice(&(n as u64).to_le_bytes());
        Ok(self)
    }
    fn serialize_struct(self, _: &'static str, _: usize) -> Result<Self, Error> {
        Ok(self)
    }
    fn serialize_struct_variant(self, _: &'static str, idx: u32, _: &'static str, _: usize) -> Result<Self, Error> {
        self.out.extend_from_slice(&idx.to_le_bytes());
        Ok(self)
    }
}

macro_rules! ser_compound {
    ($tr:ident, $m:ident) => {
        impl<'a> ser::$tr for &'a mut Ser {
            type Ok = ();
            type Error = Error;
            fn $m<T: ?Sized + Serialize>(&mut self, v: &T) -> Result<(), Error> {
                v.serialize(&mut **self)
            }
            fn end(self) -> Result<(), Error> {
                Ok(())
            }
        }
    };
}
ser_compound!(SerializeSeq, serialize_element);
ser_compound!(SerializeTuple, serialize_element);
ser_compound!(SerializeTupleStruct, serialize_field);
ser_compound!(SerializeTupleVariant, serialize_field);

impl<'a> ser::SerializeMap for &'a mut Ser {
    type Ok = ();
    type Error = Error;
    fn serialize_key<T: ?Sized + Serialize>(&mut self, k: &T) -> Result<(), Error> {
        k.serialize(&mut **self)
    }
    fn serialize_value<T: ?Sized + Serialize>(&mut self, v: &T) -> Result<(), Error> {
        v.serialize(&mut **self)
    }
    fn end(self) -> Result<(), Error> {
        Ok(())
    }
}
impl<'a> ser::SerializeStruct for &'a mut Ser {
    type Ok = ();
    type Error = Error;
    fn serialize_field<T: ?Sized + Serialize>(&mut self, _: &'static str, v: &T) -> Result<(), Error> {
        v.serialize(&mut **self)
    }
    fn end(self) -> Result<(), Error> {
        Ok(())
    }
}
impl<'a> ser::SerializeStructVariant for &'a mut Ser {
    type Ok = ();
    type Error = Error;
    fn serialize_field<T: ?Sized + Serialize>(&mut self, _: &'static str, v: &T) -> Result<(), Error> {
        v.serialize(&mut **self)
    }
    fn end(self) -> Result<(), Error> {
        Ok(())
    }
}

pub struct De<'de> {
    input: &'de [u8],
}

impl<'de> De<'de> {
    fn take(&mut self, n: usize) -> Result<&'de [u8], Error> {
        if self.input.len() < n {
            return Err(Error("unexpected end of input".into()));
        }
        let (a, b) = self.input.split_at(n);
        self.input = b;
        Ok(a)
    }
    fn len(&mut self) -> Result<usize, Error> {
        let b = self.take(8)?;
        Ok(u64::from_le_bytes(b.try_into().unwrap()) as usize)
    }
}

macro_rules! de_num {
    ($f:ident, $t:ty, $v:ident, $n:expr) => {
        fn $f<V: Visitor<'de>>(self, visitor: V) -> Result<V::Value, Error> {
            let b = self.take($n)?;
            visitor.$v(<$t>::from_le_bytes(b.try_into().unwrap()))
        }
    };
}

impl<'de, 'a> de::Deserializer<'de> for &'a mut De<'de> {
    type Error = Error;
    fn is_human_readable(&self) -> bool {
        false
    }
    fn deserialize_any<V: Visitor<'de>>(self, _: V) -> Result<V::Value, Error> {
        Err(Error("the format is not self-describing: deserialize_any is not supported".into()))
    }
    fn deserialize_bool<V: Visitor<'de>>(self, visitor: V) -> Result<V::Value, Error> {
        match self.take(1)?[0] {
            0 => visitor.visit_bool(false),
            1 => visitor.visit_bool(true),
            b => Err(Error(format!("invalid bool byte {}", b))),
        }
    }
    de_num!(deserialize_i8, i8, visit_i8, 1);
    de_num!(deserialize_i16, i16, visit_i16, 2);
    de_num!(deserialize_i32, i32, visit_i32, 4);
    de_num!(deserialize_i64, i64, visit_i64, 8);
    de_num!(deserialize_i128, i128, visit_i128, 16);
    de_num!(deserialize_u8, u8, visit_u8, 1);
    de_num!(deserialize_u16, u16, visit_u16, 2);
    de_num!(deserialize_u32, u32, visit_u32, 4);
    de_num!(deserialize_u64, u64, visit_u64, 8);
    de_num!(deserialize_u128, u128, visit_u128, 16);
    fn deserialize_f32<V: Visitor<'de>>(self, visitor: V) -> Result<V::Value, Error> {
        let b = self.take(4)?;
        visitor.visit_f32(f32::from_bits(u32::from_le_bytes(b.try_into().unwrap())))
    }
    fn deserialize_f64<V: Visitor<'de>>(self, visitor: V) -> Result<V::Value, Error> {
        let b = self.take(8)?;
        visitor.visit_f64(f64::from_bits(u64::from_le_bytes(b.try_into().unwrap())))
    }
    fn deserialize_char<V: Visitor<'de>>(self, visitor: V) -> Result<V::Value, Error> {
        let b = self.take(4)?;
        let c = char::from_u32(u32::from_le_bytes(b.try_into().unwrap())).ok_or_else(|| Error("invalid char".into()))?;
        visitor.visit_char(c)
    }
    fn deserialize_str<V: Visitor<'de>>(self, visitor: V) -> Result<V::Value, Error> {
        let n = self.len()?;
        let b = self.take(n)?;
        visitor.visit_borrowed_str(std::str::from_utf8(b).map_err(|e| Error(e.to_string()))?)
    }
    fn deserialize_string<V: Visitor<'de>>(self, visitor: V) -> Result<V::Value, Error> {
        self.deserialize_str(visitor)
    }
    fn deserialize_bytes<V: Visitor<'de>>(self, visitor: V) -> Result<V::Value, Error> {
        let n = self.len()?;
        visitor.visit_borrowed_bytes(self.take(n)?)
    }
    fn deserialize_byte_buf<V: Visitor<'de>>(self, visitor: V) -> Result<V::Value, Error> {
        self.deserialize_bytes(visitor)
    }
    fn deserialize_option<V: Visitor<'de>>(self, visitor: V) -> Result<V::Value, Error> {
        match self.take(1)?[0] {
            0 => visitor.visit_none(),
            1 => visitor.visit_some(self),
            b => Err(Error(format!("invalid option tag {}", b))),
        }
    }
    fn deserialize_unit<V: Visitor<'de>>(self, visitor: V) -> Result<V::Value, Error> {
        visitor.visit_unit()
    }
    fn deserialize_unit_struct<V: Visitor<'de>>(self, _: &'static str, visitor: V) -> Result<V::Value, Error> {
        visitor.visit_unit()
    }
    fn deserialize_newtype_struct<V: Visitor<'de>>(self, _: &'static str, visitor: V) -> Result<V::Value, Error> {
        visitor.visit_newtype_struct(self)
    }
    fn deserialize_seq<V: Visitor<'de>>(self, visitor: V) -> Result<V::Value, Error> {
        let n = self.len()?;
        visitor.visit_seq(Counted { de: self, left: n })
    }
    fn deserialize_tuple<V: Visitor<'de>>(self, len: usize, visitor: V) -> Result<V::Value, Error> {
        visitor.visit_seq(Counted { de: self, left: len })
    }
    fn deserialize_tuple_struct<V: Visitor<'de>>(self, _: &'static str, len: usize, visitor: V) -> Result<V::Value, Error> {
        visitor.visit_seq(Counted { de: self, left: len })
    }
    fn deserialize_map<V: Visitor<'de>>(self, visitor: V) -> Result<V::Value, Error> {
        let n = self.len()?;
        visitor.visit_map(Counted { de: self, left: n })
    }
    fn deserialize_struct<V: Visitor<'de>>(self, _: &'static str, fields: &'static [&'static str], visitor: V) -> Result<V::Value, Error> {
        visitor.visit_seq(Counted { de: self, left: fields.len() })
    }
    fn deserialize_enum<V: Visitor<'de>>(self, _: &'static str, _: &'static [&'static str], visitor: V) -> Result<V::Value, Error> {
        visitor.visit_enum(self)
    }
    fn deserialize_identifier<V: Visitor<'de>>(self, _: V) -> Result<V::Value, Error> {
        Err(Error("the format carries no field or variant names: deserialize_identifier is not supported".into()))
    }
    fn deserialize_ignored_any<V: Visitor<'de>>(self, _: V) -> Result<V::Value, Error> {
        Err(Error("the format is not self-describing: deserialize_ignored_any is not supported".into()))
    }
}

struct Counted<'a, 'de> {
    de: &'a mut De<'de>,
    left: usize,
}
impl<'de, 'a> SeqAccess<'de> for Counted<'a, 'de> {
    type Error = Error;
    fn next_element_seed<T: DeserializeSeed<'de>>(&mut self, seed: T) -> Result<Option<T::Value>, Error> {
        if self.left == 0 {
            return Ok(None);
        }
        self.left -= 1;
        seed.deserialize(&mut *self.de).map(Some)
    }
    fn size_hint(&self) -> Option<usize> {
        Some(self.left)
    }
}
impl<'de, 'a> MapAccess<'de> for Counted<'a, 'de> {
    type Error = Error;
    fn next_key_seed<K: DeserializeSeed<'de>>(&mut self, seed: K) -> Result<Option<K::Value>, Error> {
        if self.left == 0 {
            return Ok(None);
        }
        self.left -= 1;
        seed.deserialize(&mut *self.de).map(Some)
    }
    fn next_value_seed<V: DeserializeSeed<'de>>(&mut self, seed: V) -> Result<V::Value, Error> {
        seed.deserialize(&mut *self.de)
    }
}

impl<'de, 'a> EnumAccess<'de> for &'a mut De<'de> {
    type Error = Error;
    type Variant = Self;
    fn variant_seed<V: DeserializeSeed<'de>>(self, seed: V) -> Result<(V::Value, Self), Error> {
        let b = self.take(4)?;
        let idx = u32::from_le_bytes(b.try_into().unwrap());
        let v = seed.deserialize(IntoDeserializer::<Error>::into_deserializer(idx))?;
        Ok((v, self))
    }
}
impl<'de, 'a> VariantAccess<'de> for &'a mut De<'de> {
    type Error = Error;
    fn unit_variant(self) -> Result<(), Error> {
        Ok(())
    }
    fn newtype_variant_seed<T: DeserializeSeed<'de>>(self, seed: T) -> Result<T::Value, Error> {
        seed.deserialize(self)
    }
    fn tuple_variant<V: Visitor<'de>>(self, len: usize, visitor: V) -> Result<V::Value, Error> {
        visitor.visit_seq(Counted { de: self, left: len })
    }
    fn struct_variant<V: Visitor<'de>>(self, fields: &'static [&'static str], visitor: V) -> Result<V::Value, Error> {
        visitor.visit_seq(Counted { de: self, left: fields.len() })
    }
}

/// self-test of the format itself on types that do not come from the crate under test
pub fn selftest() -> Result<(), String> {
    #[derive(serde::Serialize, serde::Deserialize, PartialEq, Debug, Clone)]
    enum E {
        A,
        B(f64),
        C(i64, String),
        D { x: u8, y: Option<f32> },
    }
    #[derive(serde::Serialize, serde::Deserialize, PartialEq, Debug, Clone)]
    struct Inner {
        a: f64,
        b: f64,
    }
    #[derive(serde::Serialize, serde::Deserialize, PartialEq, Debug, Clone)]
    struct S {
        n: usize,
        inner: Inner,
        v: Vec<E>,
        t: (i8, u128, char),
        s: String,
        o: Option<Inner>,
    }
    let s = S {
        n: 7,
        inner: Inner { a: -0.0, b: 0.1 + 0.2 },
        v: vec![E::A, E::B(f64::INFINITY), E::C(-5, "x\u{e9}".into()), E::D { x: 3, y: None }, E::D { x: 4, y: Some(1.5) }],
        t: (-1, u128::MAX, '\u{10ffff}'),
        s: String::new(),
        o: Some(Inner { a: 1.0, b: 2.0 }),
    };
    let bytes = to_bytes(&s).map_err(|e| e.to_string())?;
    let back: S = from_bytes(&bytes).map_err(|e| e.to_string())?;
    if back != s || format!("{:?}", back) != format!("{:?}", s) {
        return Err(format!("positional format self-test: {:?} != {:?}", back, s));
    }
    Ok(())
}
