//! sci-feat: C20 — built once per advertised feature set of stats-ci. Each build runs a smoke
//! workload against that configuration; builds with `serde` also run the round-trip monitor.
//!   sci-feat run --set <name> --partial <file> [--tier ..] [--seed ..]
//! The partial results are aggregated by `sci-monitor C20` (built with default features).
use sci_common::dist::{t_ppf, wilson_roots, norm_ppf};
use sci_common::rt::{caught, hash_str, install_panic_hook, mix, Cfg, Local, Rng, Run};
use serde_json::{json, Value};
use stats_ci::*;

fn approx_eq(a: f64, b: f64, tol: f64) -> bool {
    (a - b).abs() <= tol * (1.0 + b.abs())
}

/// one judged call per public module, against oracles shared with the main monitor
fn smoke(set: &str, l: &mut Local) {
    let check = |what: &str, ok: bool, detail: Value, l: &mut Local| {
        l.eval();
        l.count("smoke call judged");
        l.nontrivial(mix(&[hash_str(set), hash_str(what)]));
        if !ok {
            l.violation(format!("smoke|{}|{}", set, what), format!("under feature set '{}' the smoke call {} misbehaves", set, what), json!({"set": set, "what": what}), detail);
        }
        if l.wants_sample(&format!("smoke:{}", set)) {
            l.sample(&format!("smoke:{}", set), || json!({"feature_set": set, "call": what, "ok": ok}));
        }
    };
    // mean
    let data = [1., 2., 3., 4., 5., 6., 7., 8., 9., 10.];
    let c95 = Confidence::new_two_sided(0.95);
    let r = caught(|| mean::Arithmetic::<f64>::ci(c95, &data));
    let (m, s, n) = (5.5f64, (55.0f64 / 6.0).sqrt(), 10f64);
    let t = t_ppf(0.975, 9.0);
    let (elo, ehi) = (m - t * s / n.sqrt(), m + t * s / n.sqrt());
    let ok = matches!(&r, Ok(Ok(i)) if approx_eq(i.low_f(), elo, 1e-9) && approx_eq(i.high_f(), ehi, 1e-9));
    check("mean::Arithmetic::ci", ok, json!({"observed": format!("{:?}", r.map_err(|p| p.message)), "expected": [elo, ehi]}), l);
    let r = caught(|| mean::Geometric::<f64>::ci(c95, &data).and_then(|g| mean::Harmonic::<f64>::ci(c95, &data).map(|h| (g, h))));
    let ok = matches!(&r, Ok(Ok((g, h))) if h.low_f() < g.low_f() && g.high_f() < ehi && g.low_f() > 0.0);
    check("mean::Geometric/Harmonic::ci", ok, json!({"observed": format!("{:?}", r.map_err(|p| p.message))}), l);
    // comparison
    let b = [0.5, 2.5, 2.0, 4.5, 4.0, 7.0, 6.0, 9.0, 8.5, 9.0];
    let d: Vec<f64> = data.iter().zip(b.iter()).map(|(x, y)| x - y).collect();
    let r1 = caught(|| comparison::Paired::<f64>::ci(c95, &data, &b));
    let r2 = caught(|| mean::Arithmetic::<f64>::ci(c95, &d));
    let ok = matches!((&r1, &r2), (Ok(Ok(x)), Ok(Ok(y))) if x == y);
    check("comparison::Paired::ci", ok, json!({"paired": format!("{:?}", r1.map_err(|p| p.message)), "mean_of_differences": format!("{:?}", r2.map_err(|p| p.message))}), l);
    let r = caught(|| comparison::Unpaired::<f64>::ci(c95, &data, &b));
    let ok = matches!(&r, Ok(Ok(i)) if i.contains(&(5.5 - 5.3)) && i.is_two_sided());
    check("comparison::Unpaired::ci", ok, json!({"observed": format!("{:?}", r.map_err(|p| p.message))}), l);
    // proportion
    let r = caught(|| proportion::ci(c95, 100, 40));
    let z = norm_ppf(0.975);
    let (rl, ru) = wilson_roots(100.0, 40.0, z);
    let ok = matches!(&r, Ok(Ok(i)) if approx_eq(i.low_f(), rl, 1e-12) && approx_eq(i.high_f(), ru, 1e-12));
    check("proportion::ci", ok, json!({"observed": format!("{:?}", r.map_err(|p| p.message)), "expected": [rl, ru]}), l);
    // quantile
    let q = caught(|| quantile::ci(c95, &[8, 11, 12, 13, 15, 17, 19, 20, 21, 21, 22, 23, 25, 26, 28], 0.5));
    let ok = matches!(&q, Ok(Ok(i)) if i.contains(&20) && *i == Interval::new(15, 23).unwrap());
    check("quantile::ci", ok, json!({"observed": format!("{:?}", q.map_err(|p| p.message))}), l);
    let qi = caught(|| quantile::ci_indices(c95, 15, 0.5));
    let ok = matches!(&qi, Ok(Ok(i)) if *i == Interval::new(4, 11).unwrap() || *i == Interval::new(4usize, 11usize).unwrap());
    check("quantile::ci_indices", ok, json!({"observed": format!("{:?}", qi.map_err(|p| p.message))}), l);
    // interval + confidence + utils + error
    let i = Interval::new(2.0, 4.0).unwrap();
    let ok = i.contains(&3.0) && !i.contains(&5.0) && i.intersects(&Interval::new_upper(4.0)) && (i * 2.0 == Interval::new(4.0, 8.0).unwrap()) && format!("{}", i) == "[2, 4]";
    check("Interval", ok, json!({"interval": format!("{:?}", i)}), l);
    let ok = Confidence::new_upper(0.9).flipped() == Confidence::new_lower(0.9) && Confidence::try_from(1.5f64).is_err();
    check("Confidence", ok, json!({}), l);
    let mut k = utils::KahanSum::<f32>::default();
    for _ in 0..10_000 {
        k += 0.1;
    }
    let ok = (k.value() as f64 - 10_000.0 * (0.1f32 as f64)).abs() <= 4.0 * 6e-8 * 1000.0;
    check("utils::KahanSum", ok, json!({"value": k.value()}), l);
    let e = error::CIError::TooFewSamples(1);
    check("error::CIError", !format!("{}", e).is_empty(), json!({}), l);
    #[cfg(feature = "approx")]
    {
        use approx::AbsDiffEq;
        let a = Interval::new(1.0, 2.0).unwrap();
        let b = Interval::new(1.0 + 1e-9, 2.0).unwrap();
        let ok = a.abs_diff_eq(&b, 1e-6) && !a.abs_diff_eq(&b, 1e-12) && !a.abs_diff_eq(&Interval::new_upper(1.0), 1.0);
        check("approx::AbsDiffEq for Interval", ok, json!({}), l);
        l.count("approx feature exercised");
    }
}

#[cfg(feature = "serde")]
mod posfmt;

#[cfg(feature = "serde")]
mod roundtrip {
    use super::*;
    use serde::de::DeserializeOwned;
    use serde::Serialize;
    use stats_ci::comparison::{Paired, Unpaired};
    use stats_ci::mean::{Arithmetic, Geometric, Harmonic};

    fn via_json<T: Serialize + DeserializeOwned>(v: &T) -> Result<T, String> {
        let s = serde_json::to_string(v).map_err(|e| format!("json serialise: {}", e))?;
        serde_json::from_str(&s).map_err(|e| format!("json deserialise: {} (text {})", e, &s[..s.len().min(200)]))
    }
    fn via_cbor<T: Serialize + DeserializeOwned>(v: &T) -> Result<T, String> {
        let mut buf = vec![];
        ciborium::ser::into_writer(v, &mut buf).map_err(|e| format!("cbor serialise: {}", e))?;
        ciborium::de::from_reader(&buf[..]).map_err(|e| format!("cbor deserialise: {}", e))
    }

    /// positional, non-self-describing format (field order, no names): see posfmt.rs
    fn via_pos<T: Serialize + DeserializeOwned>(v: &T) -> Result<T, String> {
        let b = crate::posfmt::to_bytes(v).map_err(|e| format!("positional serialise: {}", e))?;
        crate::posfmt::from_bytes(&b).map_err(|e| format!("positional deserialise: {}", e))
    }

    pub trait State: Serialize + DeserializeOwned + Clone + PartialEq + std::fmt::Debug {
        const NAME: &'static str;
        fn build(r: &mut Rng, n: usize) -> Self;
        fn feed(&mut self, r: &mut Rng, n: usize);
        fn queries(&self) -> String;
    }

    thread_local! {
        /// unit of the data of the state being built: 0 = ordinary, -1 = tiny, +1 = huge (set per case by judge_state)
        static UNIT: std::cell::Cell<i32> = std::cell::Cell::new(0);
    }
    /// Observations of ordinary size, or (one state in four) in a tiny or huge unit, an exact power of two chosen so that
    /// squares, sums of squares of 3000 of them and reciprocals stay normal numbers of the element type: the registers
    /// of such a state are far from 1 (compensation terms of tiny states are subnormal), which an encoding that is only
    /// lossless for everyday magnitudes does not survive.
    fn val<F: num_traits::Float>(r: &mut Rng) -> F {
        let v = F::from(1.0 + r.f64() * 99.0 + if r.chance(0.2) { 1e6 } else { 0.0 }).unwrap();
        let single = std::mem::size_of::<F>() == 4;
        let e = match UNIT.with(|u| u.get()) {
            -1 => if single { -55 } else { -490 },
            1 => if single { 30 } else { 450 },
            _ => 0,
        };
        v * F::from(2.0).unwrap().powi(e)
    }

    macro_rules! mean_state {
        ($ty:ident, $f:ty, $name:expr) => {
            impl State for $ty<$f> {
                const NAME: &'static str = $name;
                fn build(r: &mut Rng, n: usize) -> Self {
                    let mut s = <$ty<$f>>::new();
                    if n % 9 == 4 {
                        // constant data (zero variance): a legitimate state
                        let v = <$f>::from(*r.pick(&[0.1f32, 0.7, 0.001, 1.1, 3.0, 1e6]));
                        for _ in 0..(2 + n % 11) {
                            StatisticsOps::append(&mut s, v).unwrap();
                        }
                        return s;
                    }
                    s.feed(r, n);
                    s
                }
                fn feed(&mut self, r: &mut Rng, n: usize) {
                    for _ in 0..n {
                        StatisticsOps::append(self, val::<$f>(r)).unwrap();
                    }
                    if r.chance(0.3) {
                        // merged partial states as well
                        let mut o = <$ty<$f>>::new();
                        for _ in 0..r.below(20) {
                            StatisticsOps::append(&mut o, val::<$f>(r)).unwrap();
                        }
                        *self += o;
                    }
                }
                fn queries(&self) -> String {
                    let n = self.sample_count();
                    let mut s = format!("n={}", n);
                    if n >= 1 {
                        s += &format!(" mean={:?}", self.sample_mean().to_bits());
                    }
                    if n >= 2 {
                        s += &format!(" sem={:?}", self.sample_sem().to_bits());
                        for c in [Confidence::TwoSided(0.95), Confidence::UpperOneSided(0.8), Confidence::LowerOneSided(0.3)] {
                            s += &format!(" ci={:?}", self.ci_mean(c).map(|i| format!("{:?}", i)).map_err(|e| format!("{:?}", e)));
                        }
                    }
                    s
                }
            }
        };
    }
    mean_state!(Arithmetic, f64, "Arithmetic<f64>");
    mean_state!(Arithmetic, f32, "Arithmetic<f32>");
    mean_state!(Geometric, f64, "Geometric<f64>");
    mean_state!(Geometric, f32, "Geometric<f32>");
    mean_state!(Harmonic, f64, "Harmonic<f64>");
    mean_state!(Harmonic, f32, "Harmonic<f32>");

    macro_rules! cmp_state {
        ($f:ty) => {
            impl State for Paired<$f> {
                const NAME: &'static str = concat!("Paired<", stringify!($f), ">");
                fn build(r: &mut Rng, n: usize) -> Self {
                    let mut s = Paired::<$f>::default();
                    s.feed(r, n);
                    s
                }
                fn feed(&mut self, r: &mut Rng, n: usize) {
                    for _ in 0..n {
                        self.append_pair(val::<$f>(r), val::<$f>(r)).unwrap();
                    }
                }
                fn queries(&self) -> String {
                    let n = self.sample_count();
                    let mut s = format!("n={}", n);
                    if n >= 2 {
                        s += &format!(" mean={:?} sem={:?} ci={:?}", self.sample_mean().to_bits(), self.sample_sem().to_bits(), self.ci_mean(Confidence::TwoSided(0.9)).map(|i| format!("{:?}", i)).map_err(|e| format!("{:?}", e)));
                    }
                    s
                }
            }
            impl State for Unpaired<$f> {
                const NAME: &'static str = concat!("Unpaired<", stringify!($f), ">");
                fn build(r: &mut Rng, n: usize) -> Self {
                    let mut s = Unpaired::<$f>::default();
                    s.feed(r, n);
                    s
                }
                fn feed(&mut self, r: &mut Rng, n: usize) {
                    for _ in 0..n {
                        if r.bool() {
                            self.append_a(val::<$f>(r)).unwrap();
                        } else {
                            self.append_b(val::<$f>(r)).unwrap();
                        }
                    }
                }
                fn queries(&self) -> String {
                    let (na, nb) = (self.stats_a().sample_count(), self.stats_b().sample_count());
                    let mut s = format!("na={} nb={}", na, nb);
                    if na >= 2 && nb >= 2 {
                        for c in [Confidence::TwoSided(0.95), Confidence::UpperOneSided(0.6)] {
                            s += &format!(" ci={:?}", self.ci_mean(c).map(|i| format!("{:?}", i)).map_err(|e| format!("{:?}", e)));
                        }
                    }
                    s
                }
            }
        };
    }
    cmp_state!(f64);
    cmp_state!(f32);

    impl State for proportion::Stats {
        const NAME: &'static str = "proportion::Stats";
        fn build(r: &mut Rng, n: usize) -> Self {
            let mut s = proportion::Stats::default();
            s.feed(r, n);
            s
        }
        fn feed(&mut self, r: &mut Rng, n: usize) {
            for _ in 0..n {
                if r.chance(0.4) {
                    self.add_success()
                } else {
                    self.add_failure()
                }
            }
        }
        fn queries(&self) -> String {
            format!("{} {} {:?}", self.population(), self.successes(), self.ci(Confidence::TwoSided(0.9)).map(|i| format!("{:?}", i)).map_err(|e| format!("{:?}", e)))
        }
    }

    fn judge_state<S: State + std::ops::Add<Output = S>>(seed: u64, i: u64, l: &mut Local) {
        let mut r = Rng::from(&[seed, hash_str(S::NAME), i]);
        let n = match i % 5 {
            0 => r.below(3) as usize,
            1 => r.range(2, 30) as usize,
            _ => r.range(30, 3000) as usize,
        };
        let unit = if i % 17 == 11 { 0 } else { match i % 8 { 3 => -1, 6 => 1, _ => 0 } };
        UNIT.with(|u| u.set(unit));
        if unit != 0 {
            l.count(if unit < 0 { "states of observations in a tiny unit (2^-490 / 2^-55)" } else { "states of observations in a huge unit (2^450 / 2^30)" });
        }
        let mut original = S::build(&mut r, n);
        if i % 17 == 11 && n >= 1 {
            // the state of a long campaign: merged with itself 33 times, its counts exceed 2^32
            for _ in 0..33 {
                original = original.clone() + original;
            }
            l.count("states with counts beyond 2^32 round-tripped");
        }
        let dbg = format!("{:?}", original);
        let nz = crate::nonzero_compensation(&dbg);
        l.count_s(format!("roundtrip:{}", S::NAME));
        if nz == Some(true) {
            l.count("serialised states with non-zero compensation");
        }
        if nz.is_some() {
            l.count("serialised states with a compensation term");
        }
        l.nontrivial(mix(&[hash_str(S::NAME), hash_str(&dbg)]));
        let cont_seed = r.next_u64();
        // One case in three the original has answered its queries before it is serialised (a state in use is what gets
        // checkpointed). If the type keeps anything besides its statistics (a memo of the last answer, say) the original
        // then differs from a freshly restored copy in that respect; the property still requires the two to compare equal,
        // answer alike and continue alike. Debug identity is only demanded of states that have not been queried.
        let warm = i % 3 == 1;
        if warm {
            let _ = original.queries();
            l.count("states queried before being serialised");
        }
        for (fmt, back) in [("json", via_json(&original)), ("cbor", via_cbor(&original)), ("positional", via_pos(&original))] {
            l.eval();
            let case = || json!({"type": S::NAME, "i": i, "format": fmt});
            let restored = match back {
                Ok(v) => v,
                Err(e) => {
                    l.violation(format!("roundtrip|{}|{}|codec-error", S::NAME, fmt), format!("{} state does not survive {}: {}", S::NAME, fmt, e), case(), json!({"state": dbg}));
                    continue;
                }
            };
            if restored != original || original != restored || (!warm && format!("{:?}", restored) != dbg) {
                l.violation(format!("roundtrip|{}|{}|restored-differs", S::NAME, fmt), "the restored state is not equal / not Debug-identical to the original (a field was lost)".to_string(), case(), json!({"original": dbg, "restored": format!("{:?}", restored)}));
                continue;
            }
            if restored.queries() != original.queries() {
                l.violation(format!("roundtrip|{}|{}|queries-differ", S::NAME, fmt), "the restored state answers a query differently".to_string(), case(), json!({"original": original.queries(), "restored": restored.queries()}));
            }
            // continuation: both copies fed the same observations
            let (mut a, mut b) = (original.clone(), restored);
            let k = 1 + (i % 40) as usize;
            a.feed(&mut Rng::new(cont_seed), k);
            b.feed(&mut Rng::new(cont_seed), k);
            l.eval();
            if a != b || (!warm && format!("{:?}", a) != format!("{:?}", b)) || a.queries() != b.queries() {
                l.violation(format!("roundtrip|{}|{}|continuation-diverges", S::NAME, fmt), "after the same continuation the restored state diverges from the original".to_string(), case(), json!({"original_after": format!("{:?}", a), "restored_after": format!("{:?}", b)}));
            }
        }
        if l.wants_sample(&format!("roundtrip:{}", S::NAME)) {
            l.sample(&format!("roundtrip:{}", S::NAME), || json!({"type": S::NAME, "state": dbg, "json": serde_json::to_string(&original).unwrap_or_default(), "queries": original.queries()}));
        }
    }

    fn judge_values(seed: u64, i: u64, l: &mut Local) {
        let mut r = Rng::from(&[seed, 0x7a1, i]);
        macro_rules! rt {
            ($v:expr, $name:expr) => {{
                let v = $v;
                l.count_s(format!("roundtrip:{}", $name));
                l.nontrivial(mix(&[hash_str($name), hash_str(&format!("{:?}", v))]));
                for (fmt, back) in [("json", via_json(&v)), ("cbor", via_cbor(&v)), ("positional", via_pos(&v))] {
                    l.eval();
                    let ok = matches!(&back, Ok(b) if *b == v && format!("{:?}", b) == format!("{:?}", v));
                    if !ok {
                        l.violation(format!("roundtrip|{}|{}|restored-differs", $name, fmt), format!("{} does not survive a {} round trip", $name, fmt), json!({"type": $name, "i": i}), json!({"value": format!("{:?}", v), "restored": format!("{:?}", back)}));
                    }
                }
            }};
        }
        let lv = if i % 2 == 0 { *r.pick(&[0.001, 0.5, 0.95, 0.999, 0.9999, 0.1 + 0.2]) } else { r.uniform(0.001, 0.9999) };
        rt!(Confidence::TwoSided(lv), "Confidence");
        rt!(Confidence::UpperOneSided(lv), "Confidence");
        rt!(Confidence::LowerOneSided(lv), "Confidence");
        let (a, b) = (r.range(-1000, 1000), r.range(0, 1000));
        rt!(Interval::TwoSided(a, a + b), "Interval<i64>");
        rt!(Interval::UpperOneSided(a), "Interval<i64>");
        rt!(Interval::LowerOneSided(a), "Interval<i64>");
        let (x, w) = (r.uniform(-1e3, 1e3), r.f64() * 10.0);
        rt!(Interval::TwoSided(x, x + w), "Interval<f64>");
        rt!(Interval::TwoSided(-0.0f64, 0.1 + 0.2), "Interval<f64>");
        // degenerate (valid) intervals, e.g. the mean interval of a constant sample
        rt!(Interval::TwoSided(x, x), "Interval<f64>");
        rt!(Interval::TwoSided(a, a), "Interval<i64>");
        rt!(Interval::TwoSided(format!("s{}", a), format!("s{}", a)), "Interval<String>");
        l.count("degenerate intervals round-tripped");
        rt!(Interval::UpperOneSided(x), "Interval<f64>");
        rt!(Interval::LowerOneSided(x as f32), "Interval<f32>");
        rt!(Interval::TwoSided(format!("a{}", a), format!("b{}", b)), "Interval<String>");
        rt!(Interval::UpperOneSided(format!("\"q{}\u{e9}\n", a)), "Interval<String>");
        rt!(Interval::LowerOneSided(String::new()), "Interval<String>");
    }

    pub fn run(seed: u64, n: u64, l: &mut Local) {
        for i in 0..n {
            judge_state::<Arithmetic<f64>>(seed, i, l);
            judge_state::<Arithmetic<f32>>(seed, i, l);
            judge_state::<Geometric<f64>>(seed, i, l);
            judge_state::<Geometric<f32>>(seed, i, l);
            judge_state::<Harmonic<f64>>(seed, i, l);
            judge_state::<Harmonic<f32>>(seed, i, l);
            judge_state::<Paired<f64>>(seed, i, l);
            judge_state::<Paired<f32>>(seed, i, l);
            judge_state::<Unpaired<f64>>(seed, i, l);
            judge_state::<Unpaired<f32>>(seed, i, l);
            judge_state::<proportion::Stats>(seed, i, l);
            judge_values(seed, i, l);
        }
    }
}

/// coverage metric: does the Debug rendering contain a non-zero compensation term?
#[allow(dead_code)]
pub fn nonzero_compensation(dbg: &str) -> Option<bool> {
    let mut found = false;
    let mut any = false;
    let mut rest = dbg;
    while let Some(i) = rest.find("compensation: ") {
        found = true;
        let tail = &rest[i + 14..];
        let end = tail.find(|c: char| c == ' ' || c == ',' || c == '}').unwrap_or(tail.len());
        match tail[..end].parse::<f64>() {
            Ok(v) => {
                if v != 0.0 {
                    any = true
                }
            }
            Err(_) => return None,
        }
        rest = &tail[end..];
    }
    if found {
        Some(any)
    } else {
        None
    }
}

fn arg(args: &[String], name: &str) -> Option<String> {
    args.iter().position(|a| a == name).and_then(|i| args.get(i + 1).cloned())
}

fn main() {
    let args: Vec<String> = std::env::args().skip(1).collect();
    install_panic_hook();
    let mode = args.first().cloned().unwrap_or_default();
    if mode == "run" {
        // one configuration: write a partial result
        let set = arg(&args, "--set").unwrap_or_else(|| "?".into());
        let partial = arg(&args, "--partial").expect("--partial");
        let cfg = Cfg::parse(&["C20".to_string()].iter().cloned().chain(args[1..].iter().cloned()).collect::<Vec<_>>());
        let seed = cfg.seed;
        let quick = cfg.quick();
        let run = Run::new(cfg);
        let mut l = run.local();
        l.per_class_samples = 1;
        smoke(&set, &mut l);
        #[cfg(feature = "serde")]
        {
            if let Err(e) = posfmt::selftest() {
                // a broken format of the monitor must never become a verdict on the crate
                eprintln!("positional format self-test failed: {}", e);
                std::process::exit(3);
            }
            l.count("positional (non-self-describing) format self-test passed");
            let n = if quick { 150 } else { 8000 };
            roundtrip::run(seed, n, &mut l);
            l.count_s(format!("serde round trips run under '{}'", set));
        }
        let _ = (seed, quick);
        let distinct = l.distinct.count();
        let doc = json!({
            "set": set,
            "evals": l.evals,
            "nontrivial": l.nontrivial,
            "distinct": distinct,
            "classes": l.counts.iter().map(|(k, v)| (k.to_string(), *v)).chain(l.counts_s.iter().map(|(k, v)| (k.clone(), *v))).collect::<std::collections::BTreeMap<String, u64>>(),
            "samples": l.samples,
            "violations": l.violations.values().map(|(v, n)| json!({"sig": v.sig, "what": v.what, "case": v.case, "detail": v.detail, "n": n})).collect::<Vec<_>>(),
        });
        std::fs::write(&partial, serde_json::to_string_pretty(&doc).unwrap()).expect("write partial");
        println!("partial written: set={} evals={} violations={}", set, l.evals, l.violations.len());
        std::process::exit(0);
    }
    eprintln!("usage: sci-feat run --set <name> --partial <file> [--tier ..] [--seed ..]");
    std::process::exit(2);
}
