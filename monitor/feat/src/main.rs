fn main() {}
