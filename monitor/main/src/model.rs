//! O-extint: extended-real closed-interval model. A closed interval is a pair (lo, hi) over
//! T ∪ {-inf, +inf}. Deliberately shares nothing with the crate's per-kind match arms.
#![allow(dead_code)]

use std::cmp::Ordering;
use stats_ci::Interval;

#[derive(Clone, Debug, PartialEq)]
pub enum E<T> {
    NegInf,
    V(T),
    PosInf,
}

impl<T: PartialOrd> E<T> {
    pub fn cmp(&self, o: &E<T>) -> Option<Ordering> {
        use E::*;
        match (self, o) {
            (NegInf, NegInf) | (PosInf, PosInf) => Some(Ordering::Equal),
            (NegInf, _) => Some(Ordering::Less),
            (_, NegInf) => Some(Ordering::Greater),
            (PosInf, _) => Some(Ordering::Greater),
            (_, PosInf) => Some(Ordering::Less),
            (V(a), V(b)) => a.partial_cmp(b),
        }
    }
    pub fn le(&self, o: &E<T>) -> bool {
        matches!(self.cmp(o), Some(Ordering::Less) | Some(Ordering::Equal))
    }
    pub fn finite(&self) -> bool {
        matches!(self, E::V(_))
    }
    pub fn val(&self) -> Option<&T> {
        match self {
            E::V(x) => Some(x),
            _ => None,
        }
    }
}

#[derive(Clone, Debug, PartialEq)]
pub struct M<T> {
    pub lo: E<T>,
    pub hi: E<T>,
}

impl<T: PartialOrd + Clone> M<T> {
    pub fn of(i: &Interval<T>) -> M<T> {
        match i {
            Interval::TwoSided(a, b) => M { lo: E::V(a.clone()), hi: E::V(b.clone()) },
            Interval::UpperOneSided(a) => M { lo: E::V(a.clone()), hi: E::PosInf },
            Interval::LowerOneSided(b) => M { lo: E::NegInf, hi: E::V(b.clone()) },
        }
    }
    pub fn contains(&self, x: &T) -> bool {
        let x = E::V(x.clone());
        self.lo.le(&x) && x.le(&self.hi)
    }
    /// non-empty intersection: max(lo) <= min(hi)
    pub fn intersects(&self, o: &M<T>) -> bool {
        self.lo.le(&o.hi) && o.lo.le(&self.hi)
    }
    /// superset
    pub fn includes(&self, o: &M<T>) -> bool {
        self.lo.le(&o.lo) && o.hi.le(&self.hi)
    }
    pub fn well_formed(&self) -> bool {
        self.lo.le(&self.hi)
    }
    /// strict order of the property: a < b iff a != b, a bounded above, b bounded below, hi_a <= lo_b
    pub fn order(&self, o: &M<T>) -> Option<Ordering> {
        if self == o {
            return Some(Ordering::Equal);
        }
        let less = self.hi.finite() && o.lo.finite() && self.hi.le(&o.lo);
        let greater = o.hi.finite() && self.lo.finite() && o.hi.le(&self.lo);
        match (less, greater) {
            (true, false) => Some(Ordering::Less),
            (false, true) => Some(Ordering::Greater),
            // both can only happen for degenerate equal points, which are equal intervals
            _ => None,
        }
    }
}
