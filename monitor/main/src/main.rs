//! sci-monitor: API-boundary runtime monitors for stats-ci (one subcommand per property).
mod api;
#[macro_use]
mod lazy;
mod model;
mod props;

use sci_common::rt::{install_panic_hook, Cfg, Run};

fn main() {
    let args: Vec<String> = std::env::args().skip(1).collect();
    if args.is_empty() {
        eprintln!("usage: sci-monitor <ID>|selftest [--tier quick|thorough] [--seed N] [--replay path]");
        std::process::exit(2);
    }
    install_panic_hook();
    if args[0] == "miri-lane" {
        std::process::exit(props::miri_lane::lane_main(&args[1..]));
    }
    if args[0] == "selftest" {
        match sci_common::dist::selftest(sci_common::REF_DIST_JSON) {
            Ok(st) => {
                println!(
                    "oracle self-test ok: {} reference points; worst errors: t_cdf {:.1e} (quadrature {:.1e}), t_quantile(rel) {:.1e}, norm_cdf {:.1e}, norm_quantile {:.1e}, binom(rel) {:.1e}",
                    st.points, st.worst_t_cdf, st.worst_quad, st.worst_t_ppf_rel, st.worst_norm_cdf, st.worst_norm_ppf, st.worst_binom_rel
                );
                std::process::exit(0)
            }
            Err(e) => {
                println!("INCONCLUSIVE property=* reason=oracle_selftest_failed:{}", e);
                std::process::exit(2)
            }
        }
    }
    let cfg = Cfg::parse(&args);
    let id = cfg.id.clone();
    // a broken oracle must never produce a verdict
    let st = match sci_common::dist::selftest(sci_common::REF_DIST_JSON) {
        Ok(st) => st,
        Err(e) => {
            println!("INCONCLUSIVE property={} reason=oracle_selftest_failed:{}", id, e);
            std::process::exit(2);
        }
    };
    let run = Run::new(cfg);
    run.extra(
        "oracle_selftest",
        serde_json::json!({"reference_points": st.points, "worst_t_cdf_abs": st.worst_t_cdf, "worst_t_cdf_quadrature_abs": st.worst_quad,
            "worst_t_quantile_rel": st.worst_t_ppf_rel, "worst_norm_cdf_abs": st.worst_norm_cdf, "worst_norm_quantile_abs": st.worst_norm_ppf, "worst_binom_pmf_rel": st.worst_binom_rel}),
    );
    match sci_common::rt::caught(|| props::dispatch(&id, &run)) {
        Ok(true) => {}
        Ok(false) => {
            println!("INCONCLUSIVE property={} reason=unknown_property", id);
            std::process::exit(2);
        }
        Err(p) => {
            // a panic outside the sharded runner (sequential lanes): classified like the others
            let mut l = run.local();
            run.escaped_panic(&p, "sequential_lane", &mut l);
            run.absorb(l);
        }
    }
    // the same monitor executed against the production-profile build of the crate (see /verif/check)
    if let Some(i) = run.cfg.extra.iter().position(|a| a == "--prod-summary") {
        let path = run.cfg.extra.get(i + 1).cloned().unwrap_or_default();
        run.import_lane("production", &path);
        run.require(&["production lane judged"]);
        run.assume("judged in two builds of the crate: checked (overflow-checks + debug-assertions, full workload of the tier) and production (neither; quick-tier workload), the second folded in as the `production` lane");
    } else if cfg!(not(debug_assertions)) {
        run.assume("this is the production-profile lane: overflow-checks = false, debug-assertions = false");
    }
    let code = run.finish();
    std::process::exit(code);
}
