//! C03 — quantile CI is the order statistics at the Wilson ranks, whatever the data order.
use crate::api::{call, conf, ErrFam, Out};
use sci_common::dist::{norm_ppf_cached, wilson_roots};
use sci_common::gen::{level_grid, permutations, Kind, KINDS};
use sci_common::rt::{hash_f64s, hash_str, jf, mix, Local, Rng, Run};
use serde_json::{json, Value};
use stats_ci::{quantile, Interval};
use std::fmt::Debug;
use std::sync::Arc;

type Ranks = (Kind, Option<usize>, Option<usize>);

fn ranks_of(i: &Interval<usize>) -> Ranks {
    match i {
        Interval::TwoSided(a, b) => (Kind::Two, Some(*a), Some(*b)),
        Interval::UpperOneSided(a) => (Kind::Upper, Some(*a), None),
        Interval::LowerOneSided(b) => (Kind::Lower, None, Some(*b)),
    }
}

/// set of values floor(x) may legitimately take when x is within `eps` of an integer
fn floor_set(x: f64, eps: f64) -> Vec<usize> {
    let f = x.floor();
    let mut v = vec![f.max(0.0) as usize];
    if x - f < eps && f >= 1.0 {
        v.push((f - 1.0) as usize);
    }
    if (f + 1.0) - x < eps {
        v.push((f + 1.0) as usize);
    }
    v
}

/// floor(p*n) for a given position p: the floor of the exact product and the floor of the rounded product (they
/// differ only when rounding the product crosses an integer); nothing else is admissible. The exact product is
/// recovered with a fused multiply-add (n < 2^53).
fn index_floor_set(p: f64, n: usize) -> Vec<usize> {
    let nf = n as f64;
    if n as u64 >= (1u64 << 53) || !(p >= 0.0) {
        return floor_set(p * nf, 1e-9 * (1.0 + nf));
    }
    let x = p * nf;
    let err = p.mul_add(nf, -x); // exact residual p*n - fl(p*n)
    let f = x.floor();
    let mut v = vec![f as usize];
    if x == f && err < 0.0 && f >= 1.0 {
        v.push((f - 1.0) as usize); // the exact product lies just below the integer the float product rounded to
    }
    v
}

/// admissible values of round(q*n)
fn round_set(q: f64, n: usize) -> Vec<usize> {
    let nf = n as f64;
    let x = q * nf;
    let r = x.round();
    let mut v = vec![r as usize];
    let frac = x - x.floor();
    if (n as u64) < (1u64 << 53) && q >= 0.0 {
        // q is given, so the only legitimate ambiguity is the rounding of the product q*n itself: when the rounded
        // product sits exactly on a half-integer the exact one may lie a hair below it (until round six a window of
        // 1e-9 * (1 + |x|) was conceded here)
        let err = q.mul_add(nf, -x);
        if frac == 0.5 && err < 0.0 {
            v.push(x.floor() as usize);
        }
    } else if (frac - 0.5).abs() < 1e-9 * (1.0 + x.abs()) {
        v.push(x.floor() as usize);
        v.push(x.ceil() as usize);
    }
    v.sort();
    v.dedup();
    v
}

pub struct Expect {
    pub errs: Vec<ErrFam>,
    /// admissible (lo-rank set, hi-rank set) per admissible k
    pub lo: Vec<usize>,
    pub hi: Vec<usize>,
    pub ks: Vec<usize>,
    pub ambiguous: bool,
}

pub fn expect(n: usize, q: f64, kind: Kind, level: f64) -> Expect {
    let mut e = Expect { errs: vec![], lo: vec![], hi: vec![], ks: vec![], ambiguous: false };
    if !(q > 0.0 && q < 1.0) {
        e.errs.push(ErrFam::InvalidQuantile);
        return e;
    }
    if n < 4 {
        e.errs.push(ErrFam::TooFewSamples);
        // other reasons may apply too; any applicable one is accepted
    }
    let ks = round_set(q, n);
    e.ambiguous = ks.len() > 1;
    let mut ok_ks = vec![];
    for &k in ks.iter() {
        if k < 2 {
            e.errs.push(ErrFam::TooFewSuccesses);
        } else if n < k + 2 {
            e.errs.push(ErrFam::TooFewFailures);
        } else {
            ok_ks.push(k);
        }
    }
    if n < 4 {
        return e;
    }
    if ok_ks.is_empty() {
        return e;
    }
    if ok_ks.len() == ks.len() {
        e.errs.clear();
    }
    let z = norm_ppf_cached(kind.target(level));
    for &k in ok_ks.iter() {
        let (rl, ru) = wilson_roots(n as f64, k as f64, z);
        // for a negative z (one-sided level < 1/2) mean - span is the upper root and vice versa
        let (plo, phi) = if z >= 0.0 { (rl, ru) } else { (ru, rl) };
        // The crate's bound and the reference root are two floating evaluations of the same real number: each is off by
        // a few units in the last place of the terms it is made of (k + z^2 in units of 1/n), and of the product itself.
        // Only inside that window can floor() legitimately differ; 64 units is ~5 times a first-order bound of both.
        // (Until round six the window was 1e-9 * (1 + n): wide enough to hide a deliberate nudge of the product.)
        let u = f64::EPSILON / 2.0;
        let eps_of = |x: f64| 64.0 * u * (1.0 + k as f64 + z * z + x.abs());
        let cap = |v: Vec<usize>| -> Vec<usize> { v.into_iter().map(|r| r.min(n - 1)).collect() };
        let los = cap(floor_set(plo * n as f64, eps_of(plo * n as f64)));
        let his = cap(floor_set(phi * n as f64, eps_of(phi * n as f64)));
        if los.len() > 1 || his.len() > 1 {
            e.ambiguous = true;
        }
        e.lo.extend(los);
        e.hi.extend(his);
        e.ks.push(k);
    }
    e
}

fn judge_ranks(n: usize, q: f64, kind: Kind, level: f64, case: &dyn Fn() -> Value, l: &mut Local) {
    let c = conf(kind, level);
    let e = expect(n, q, kind, level);
    let inp = || json!({"n": n, "q": jf(q), "kind": kind.name(), "level": level});
    let a = call(|| quantile::ci_indices(c, n, q)).map(|i| ranks_of(&i));
    let b = call(|| quantile::Stats::new(n).ci(c, q)).map(|i| ranks_of(&i));
    l.eval();
    l.eval();
    // the two index entry points agree
    let same = match (&a, &b) {
        (Out::Ok(x), Out::Ok(y)) => x == y,
        (Out::Err(f, _), Out::Err(g, _)) => f == g,
        (Out::Panic(_), Out::Panic(_)) => true,
        _ => false,
    };
    if !same {
        l.violation("ci_indices-vs-Stats::ci".to_string(), "ci_indices and Stats::new(n).ci disagree".to_string(), case(), json!({"input": inp(), "ci_indices": a.describe(), "Stats::ci": b.describe()}));
    }
    if e.ambiguous {
        l.count("ambiguous_rank_cases");
    }
    match &a {
        Out::Panic(p) => l.violation(format!("ci_indices|panic@{}", p.location), format!("ci_indices panics: {}", p.message), case(), json!({"input": inp()})),
        Out::Err(f, s) => {
            if e.errs.is_empty() {
                l.violation(format!("ci_indices|admissible-rejected|{}", f.name()), "an admissible (n, q) is rejected".to_string(), case(), json!({"input": inp(), "error": s}));
            } else if !e.errs.contains(f) {
                let qc = if q.is_nan() { "q=NaN" } else if q <= 0.0 { "q<=0" } else if q >= 1.0 { "q>=1" } else { "q-in-range" };
                l.violation(
                    format!("ci_indices|wrong-error|{}|{}", f.name(), qc),
                    format!("inadmissible input answered with {} (documented: {:?})", f.name(), e.errs.iter().map(|x| x.name()).collect::<Vec<_>>()),
                    case(),
                    json!({"input": inp(), "error": s}),
                );
            } else {
                l.count("inadmissible rejected with documented error");
            }
        }
        Out::Ok((rk, lo, hi)) => {
            if e.ks.is_empty() {
                l.violation(format!("ci_indices|inadmissible-accepted|{}", e.errs.first().map(|x| x.name()).unwrap_or("?")), "an inadmissible (n, q) is accepted".to_string(), case(), json!({"input": inp(), "observed": a.describe()}));
                return;
            }
            l.count("ranks judged");
            l.nontrivial(mix(&[n as u64, q.to_bits(), kind as u64, level.to_bits()]));
            let det = || json!({"input": inp(), "observed": a.describe(), "admissible_low_ranks": e.lo, "admissible_high_ranks": e.hi, "k=round(q*n)": e.ks});
            if *rk != kind {
                l.violation(format!("ci_indices|result-kind|{}", kind.name()), "the kind of the rank interval does not match the confidence".to_string(), case(), det());
                return;
            }
            if let Some(lo) = lo {
                if !e.lo.contains(lo) || *lo >= n {
                    l.violation(format!("ci_indices|low-rank|{}", kind.name()), "the lower rank is not min(floor(p_low*n), n-1)".to_string(), case(), det());
                }
            }
            if let Some(hi) = hi {
                if !e.hi.contains(hi) || *hi >= n {
                    l.violation(format!("ci_indices|high-rank|{}", kind.name()), "the upper rank is not min(floor(p_high*n), n-1)".to_string(), case(), det());
                }
            }
            if let (Some(lo), Some(hi)) = (lo, hi) {
                if lo > hi {
                    l.violation("ci_indices|lo>hi".to_string(), "lower rank above upper rank".to_string(), case(), det());
                }
            }
            // bracket the rank of the sample quantile to within one position
            if kind == Kind::Two || level >= 0.5 {
                let kmax = *e.ks.iter().max().unwrap();
                let kmin = *e.ks.iter().min().unwrap();
                l.count("bracketing judged");
                if let Some(lo) = lo {
                    if *lo > kmax {
                        l.violation(format!("ci_indices|bracket-low|{}", kind.name()), "the lower rank is above round(q*n)".to_string(), case(), det());
                    }
                }
                if let Some(hi) = hi {
                    if *hi + 1 < kmin {
                        l.violation(format!("ci_indices|bracket-high|{}", kind.name()), "the upper rank is below round(q*n) - 1".to_string(), case(), det());
                    }
                }
            }
            if l.wants_sample(kind.name()) && n % 41 == 9 {
                l.sample(kind.name(), det);
            }
        }
    }
}

fn q_grid(n: usize, r: &mut Rng, dense: bool) -> Vec<f64> {
    let mut v: Vec<f64> = vec![0.5, 0.25, 0.75, 0.1, 0.9, 0.01, 0.99, 0.05, 0.95, 0.133, 0.867, 0.4, 0.6, 0.3, 0.7, 1.0 / 3.0, 2.0 / 3.0, 0.001, 0.999];
    if dense {
        for j in 1..20 {
            v.push(j as f64 / 20.0 + 0.013);
        }
    }
    if n > 0 {
        let nn = n as f64;
        let stride = if n <= 200 || dense { 1 } else { (n / 100).max(1) };
        let mut j = 1;
        while j < 2 * n {
            // half-integers j/(2n): where round() flips; and integers j/n ± tiny where floor flips
            v.push(j as f64 / (2.0 * nn));
            if j % 2 == 0 {
                v.push((j / 2) as f64 / nn + 1e-12);
                v.push((j / 2) as f64 / nn - 1e-12);
            }
            j += stride;
        }
    }
    for _ in 0..(if dense { 20 } else { 6 }) {
        v.push(r.f64());
    }
    // invalid quantiles
    v.extend([0.0, -0.0, 1.0, -1.0, 2.0, 1.0 + 2f64.powi(-52), 5e-324, 1.0 - 2f64.powi(-53), f64::NAN, f64::INFINITY, f64::NEG_INFINITY]);
    v
}

// ---------------------------------------------------------------------------- element sweep

fn kind_of<T: PartialOrd>(i: &Interval<T>) -> Kind {
    match i {
        Interval::TwoSided(..) => Kind::Two,
        Interval::UpperOneSided(_) => Kind::Upper,
        Interval::LowerOneSided(_) => Kind::Lower,
    }
}

/// expected interval of elements from the crate's own ranks on the monitor's own sort
fn expected_elems<T: Clone + PartialOrd>(sorted: &[T], ranks: &Out<Ranks>) -> Option<Interval<T>> {
    match ranks {
        Out::Ok((Kind::Two, Some(a), Some(b))) => Some(Interval::TwoSided(sorted[*a].clone(), sorted[*b].clone())),
        Out::Ok((Kind::Upper, Some(a), None)) => Some(Interval::UpperOneSided(sorted[*a].clone())),
        Out::Ok((Kind::Lower, None, Some(b))) => Some(Interval::LowerOneSided(sorted[*b].clone())),
        _ => None,
    }
}

macro_rules! with_cap {
    ($cap:expr, $c:expr, $data:expr, $q:expr, $t:ty, [$($n:literal),*]) => {
        match $cap {
            $( $n => Some(call(|| quantile::ci_max_size::<$t, _, $n>($c, $data, $q))), )*
            _ => None,
        }
    };
}

fn judge_elems<T: Copy + PartialOrd + Debug + Send + Sync>(ty: &'static str, data: &[T], q: f64, kind: Kind, level: f64, perms: &[Vec<usize>], case: &dyn Fn() -> Value, l: &mut Local) {
    let c = conf(kind, level);
    let n = data.len();
    let mut sorted = data.to_vec();
    // the monitor's own sort (insertion sort: independent of the crate's sort_by)
    for i in 1..n {
        let mut j = i;
        while j > 0 && sorted[j - 1] > sorted[j] {
            sorted.swap(j - 1, j);
            j -= 1;
        }
    }
    let ranks = call(|| quantile::ci_indices(c, n, q)).map(|i| ranks_of(&i));
    let want = expected_elems(&sorted, &ranks);
    let inp = || json!({"type": ty, "data": format!("{:?}", data), "q": q, "kind": kind.name(), "level": level});
    let check = |name: &str, got: Out<Interval<T>>, l: &mut Local, perm: Option<&Vec<usize>>| {
        l.eval();
        let ok = match (&got, &want) {
            (Out::Ok(g), Some(w)) => g == w && kind_of(g) == kind,
            (Out::Err(f, _), None) => Some(*f) == ranks.err_fam(),
            _ => false,
        };
        if !ok {
            let cls = match &got {
                Out::Panic(p) => format!("panic@{}", p.location),
                _ => "differs".into(),
            };
            l.violation(
                format!("{}|{}|{}", name, cls, ty),
                format!("{} does not return the order statistics at the ranks of ci_indices (or depends on the data order)", name),
                case(),
                json!({"input": inp(), "permutation": perm, "observed": got.describe(), "expected": format!("{:?}", want), "ranks": ranks.describe(), "sorted": format!("{:?}", sorted)}),
            );
        }
    };
    l.nontrivial(mix(&[hash_str(ty), hash_str(&format!("{:?}", data)), q.to_bits(), kind as u64, level.to_bits()]));
    l.count_s(format!("elements:{}", ty));
    check("ci_sorted_unchecked", call(|| quantile::ci_sorted_unchecked(c, &sorted, q)), l, None);
    for p in perms {
        let permuted: Vec<T> = p.iter().map(|i| data[*i]).collect();
        check("ci", call(|| quantile::ci(c, &permuted, q)), l, Some(p));
        l.count("permutations judged");
        // the same data behind views that do not announce their length (size_hint lower bound 0 resp. n/2)
        {
            let lazy = crate::lazy::Lazy(permuted.clone());
            let head = crate::lazy::HeadKnown(permuted.clone(), n / 2);
            check("ci(view of unknown length)", call(|| quantile::ci(c, &lazy, q)), l, Some(p));
            check("ci(view announcing half its length)", call(|| quantile::ci(c, &head, q)), l, Some(p));
            l.count("views of unknown length judged");
        }
        // fixed-capacity variants: CAP = n, n+1, 64, 1024 where instantiated
        for cap in [n, n + 1, 64, 1024, 2048] {
            if cap < n {
                continue;
            }
            let got = with_cap!(cap, c, &permuted, q, T, [4, 5, 6, 7, 8, 9, 16, 17, 64, 1024, 2048]);
            if let Some(g) = got {
                check("ci_max_size", g, l, Some(p));
                l.count("fixed-capacity calls judged");
            }
            let lazy = crate::lazy::Lazy(permuted.clone());
            if let Some(g) = with_cap!(cap, c, &lazy, q, T, [4, 5, 6, 7, 8, 9, 16, 17, 64, 1024, 2048]) {
                check("ci_max_size(view of unknown length)", g, l, Some(p));
            }
        }
    }
    if l.wants_sample(&format!("elements:{}", ty)) {
        l.sample(&format!("elements:{}", ty), || json!({"input": inp(), "ranks": ranks.describe(), "expected": format!("{:?}", want), "permutations_tried": perms.len()}));
    }
}

fn judge_strings(data: &[String], q: f64, kind: Kind, level: f64, l: &mut Local) {
    // Clone-only element type: ci_sorted_unchecked is the only entry point
    let c = conf(kind, level);
    let mut sorted = data.to_vec();
    sorted.sort();
    let ranks = call(|| quantile::ci_indices(c, data.len(), q)).map(|i| ranks_of(&i));
    let want = expected_elems(&sorted, &ranks);
    let got = call(|| quantile::ci_sorted_unchecked(c, &sorted, q));
    l.eval();
    l.count_s("elements:String".to_string());
    let ok = match (&got, &want) {
        (Out::Ok(g), Some(w)) => g == w,
        (Out::Err(f, _), None) => Some(*f) == ranks.err_fam(),
        _ => false,
    };
    if !ok {
        l.violation("ci_sorted_unchecked|differs|String".to_string(), "ci_sorted_unchecked on String elements differs from the ranks".to_string(), json!({"what": "strings"}), json!({"data": data, "q": q, "observed": got.describe(), "expected": format!("{:?}", want)}));
    }
}

fn multiset(r: &mut Rng, n: usize, alphabet: usize) -> Vec<usize> {
    (0..n).map(|_| r.below(alphabet as u64) as usize).collect()
}

fn elem_case(seed: u64, i: u64, quick: bool, l: &mut Local) {
    let mut r = Rng::from(&[seed, 0xe1e, i]);
    let level = *r.pick(&[0.5, 0.8, 0.9, 0.95, 0.99, 0.3]);
    let kind = KINDS[r.below(3) as usize];
    let mut q = *r.pick(&[0.5, 0.4, 0.25, 0.75, 0.6, 0.5, 0.35]);
    if i % 11 == 5 {
        // quantiles outside (0,1): every element entry point must answer like ci_indices
        q = *r.pick(&[0.0, 1.0, -0.5, 1.5, f64::NAN]);
        l.count("element entry points with invalid quantile");
    }
    let case = || json!({"what": "elems", "i": i});
    let small = i % 4 != 3;
    if small {
        // all permutations of a small multiset over a 4-symbol alphabet
        let n = if quick { r.range(4, 6) } else { r.range(4, 7) } as usize;
        let ms = multiset(&mut r, n, 4);
        let perms = permutations(n);
        match i % 5 {
            0 => {
                let d: Vec<i32> = ms.iter().map(|x| *x as i32 * 3 - 4).collect();
                judge_elems("i32", &d, q, kind, level, &perms, &case, l)
            }
            1 => {
                let d: Vec<u8> = ms.iter().map(|x| [0u8, 7, 200, 255][*x]).collect();
                judge_elems("u8", &d, q, kind, level, &perms, &case, l)
            }
            2 => {
                let d: Vec<f64> = ms.iter().map(|x| [-1.5, -0.0, 0.0, 2.25][*x]).collect();
                judge_elems("f64", &d, q, kind, level, &perms, &case, l)
            }
            3 => {
                let d: Vec<char> = ms.iter().map(|x| ['a', 'B', 'z', 'é'][*x]).collect();
                judge_elems("char", &d, q, kind, level, &perms, &case, l)
            }
            _ => {
                let d: Vec<&str> = ms.iter().map(|x| ["", "a", "ab", "b"][*x]).collect();
                judge_elems("&str", &d, q, kind, level, &perms, &case, l);
                let s: Vec<String> = d.iter().map(|x| x.to_string()).collect();
                judge_strings(&s, q, kind, level, l);
            }
        }
    } else {
        // random multisets with ties up to 1024, random permutations
        let n = *r.pick(&[8usize, 9, 15, 16, 17, 40, 64, 100, 333, 1000, 1024, 1025, 1500, 2048, 2049, 3000]);
        let ms = multiset(&mut r, n, (n / 3).max(2));
        let np = if quick { 6 } else { 50 };
        let perms: Vec<Vec<usize>> = (0..np)
            .map(|_| {
                let mut p: Vec<usize> = (0..n).collect();
                r.shuffle(&mut p);
                p
            })
            .collect();
        let qq = r.uniform(0.05, 0.95);
        if i % 2 == 0 {
            let d: Vec<i32> = ms.iter().map(|x| *x as i32 - 5).collect();
            judge_elems("i32", &d, qq, kind, level, &perms, &case, l);
        } else {
            let d: Vec<f64> = ms.iter().map(|x| (*x as f64) * 0.37 - 3.0).collect();
            judge_elems("f64", &d, qq, kind, level, &perms, &case, l);
        }
        l.count("large multiset with ties");
    }
    let _ = hash_f64s(&[]);
}

/// the rank map itself: index(p) = min(floor(p*n), n-1) for p in [0,1]
fn judge_index(n: usize, r: &mut Rng, l: &mut Local) {
    if n == 0 {
        return;
    }
    let mut ps: Vec<f64> = vec![0.0, 1.0, 0.5, 1.0 - 2f64.powi(-53), 5e-324];
    for _ in 0..4 {
        ps.push(r.f64());
        ps.push(r.below(n as u64 + 1) as f64 / n as f64);
        ps.push(r.below(n as u64 + 1) as f64 / n as f64);
        // decimal positions: their product with n is often a hair below an integer (0.29 * 100)
        ps.push(r.below(101) as f64 / 100.0);
        ps.push(r.below(1001) as f64 / 1000.0);
    }
    if n % 100 == 0 {
        for j in 0..=100 {
            ps.push(j as f64 / 100.0);
        }
    }
    for bad in [-0.5, 1.0 + 2f64.powi(-52), 2.0, f64::NAN, f64::INFINITY, f64::NEG_INFINITY] {
        l.eval();
        match call(|| quantile::Stats::new(n).index(bad)) {
            Out::Err(ErrFam::InvalidQuantile, _) => l.count("Stats::index rejects p outside [0,1]"),
            other => l.violation(
                format!("Stats::index|outside-[0,1]|{}", if bad.is_nan() { "NaN" } else { "finite-or-inf" }),
                "Stats::index accepts a position outside [0,1] (or answers with the wrong error)".to_string(),
                json!({"what": "index", "n": n, "p": jf(bad)}),
                json!({"n": n, "p": jf(bad), "observed": other.describe()}),
            ),
        }
    }
    for p in ps {
        l.eval();
        l.count("Stats::index judged");
        let want = index_floor_set(p, n).into_iter().map(|x| x.min(n - 1)).collect::<Vec<_>>();
        match call(|| quantile::Stats::new(n).index(p)) {
            Out::Ok(i) if want.contains(&i) && i < n => {}
            other => l.violation(
                format!("Stats::index|{}", if p == 1.0 { "p=1" } else { "p<1" }),
                "Stats::index(p) is not min(floor(p*n), n-1) (or is out of range)".to_string(),
                json!({"what": "index", "n": n, "p": p}),
                json!({"n": n, "p": p, "observed": other.describe(), "admissible": want}),
            ),
        }
    }
}

fn judge_n(n: usize, levels: &[f64], seed: u64, dense: bool, l: &mut Local) {
    let mut r = Rng::from(&[seed, 0xc03, n as u64]);
    judge_index(n, &mut r, l);
    let qs = q_grid(n, &mut r, dense);
    for q in qs {
        for &level in levels {
            for kind in KINDS {
                judge_ranks(n, q, kind, level, &|| json!({"what": "ranks", "n": n, "q": jf(q), "kind": kind, "level": level}), l);
            }
        }
    }
}

pub fn run(run: &Arc<Run>) {
    let seed = run.cfg.seed;
    let nmax: usize = run.cfg.by(300, 3000);
    let levels = level_grid(seed, run.cfg.by(2, 8));
    run.set_rule(format!(
        "(i) rank sweep, exhaustive in n: 0 <= n <= {} plus 8 populations in [2^32-1, 2^40], q-grid per n = all half-integers j/(2n) (where round flips; strided for large n in the quick tier), j/n ± 1e-12 (where floor flips), fixed and seeded quantiles, invalid q (<=0, >=1, NaN, ±inf), {} levels x 3 kinds, through ci_indices and Stats::new(n).ci; \
         oracle = own Wilson roots + ambiguity sets for round/floor within 1e-9 of a boundary. (ii) element sweep: all permutations of multisets of size 4..6 (7 thorough) over a 4-symbol alphabet and random permutations of random multisets with ties up to 3000, for i32, u8, f64 (±0), char, &str, String; entry points ci, ci_sorted_unchecked, ci_max_size::<CAP> (CAP in n, n+1, 64, 1024, 2048); ci / ci_max_size also through user-defined views whose iterators announce 0 resp. half of their length. \
         non-trivial = admissible (n,q,confidence) resp. each data set; distinct = their fingerprints.",
        nmax,
        levels.len()
    ));
    run.set_exhaustive(true);
    let quick = run.cfg.quick();
    if let Some(case) = &run.replay_case {
        let mut l = run.local();
        match case["what"].as_str().unwrap_or("") {
            "ranks" => {
                let q = case["q"].as_f64().unwrap_or_else(|| case["q"].as_str().unwrap_or("NaN").parse().unwrap_or(f64::NAN));
                let kind: Kind = serde_json::from_value(case["kind"].clone()).unwrap();
                judge_ranks(case["n"].as_u64().unwrap() as usize, q, kind, case["level"].as_f64().unwrap(), &|| case.clone(), &mut l);
            }
            "elems" => elem_case(seed, case["i"].as_u64().unwrap(), quick, &mut l),
            "index" => judge_index(case["n"].as_u64().unwrap() as usize, &mut Rng::from(&[seed, 0xc03, case["n"].as_u64().unwrap()]), &mut l),
            _ => {}
        }
        run.absorb(l);
        return;
    }
    run.par(nmax as u64 + 1, |i, l| judge_n(nmax - i as usize, &levels, seed, !quick && (nmax - i as usize) <= 1000, l));
    // populations beyond 32 bits (running Stats merged over a long campaign; index-only entry points):
    // the rank arithmetic must not narrow the count. 2^40 keeps the oracle's own p*n error below 1e-2.
    let huge: Vec<usize> = vec![(1 << 32) - 1, 1 << 32, (1 << 32) + 1, (1 << 32) + (1 << 31), (1 << 33) + 12345, 10_000_000_000, (1 << 36) + 7, 1 << 40];
    run.par(huge.len() as u64, |i, l| {
        l.count("population >= 2^32 judged");
        judge_n(huge[i as usize] + (seed % 5) as usize * (i as usize % 2), &levels, seed, false, l)
    });
    let ne = run.cfg.by(3_000u64, 60_000);
    run.par(ne, |i, l| elem_case(seed, i, quick, l));
    if !quick {
        // sanitizer lane: the ArrayVec path of ci_max_size under Miri
        crate::props::miri_lane::under_miri(run, "c03", None);
    }
    run.require(&[
        "ranks judged",
        "Stats::index judged",
        "Stats::index rejects p outside [0,1]",
        "bracketing judged",
        "inadmissible rejected with documented error",
        "ambiguous_rank_cases",
        "permutations judged",
        "fixed-capacity calls judged",
        "views of unknown length judged",
        "population >= 2^32 judged",
        "large multiset with ties",
        "elements:i32",
        "elements:u8",
        "elements:f64",
        "elements:char",
        "elements:&str",
        "elements:String",
        "element entry points with invalid quantile",
    ]);
}
