//! C06 — critical values are true t / normal quantiles (exact coverage under normality).
//! The critical value is *observed*: c = half-width / standard error on symmetric probe data
//! whose statistics are exact; the monitor's own t / normal CDF is then evaluated at it.
use crate::api::{call, conf, Obs, Out};
use crate::props::budget::{tol_p, TOL_P_NORMAL, T_UNTIL, Z_FROM};
use sci_common::dist::{norm_cdf, t_cdf, t_cdf_quad};
use sci_common::gen::{level_grid, Kind, KINDS};
use sci_common::rt::{mix, Local, Rng, Run};
use serde_json::{json, Value};
use stats_ci::comparison::Unpaired;
use stats_ci::mean::Arithmetic;
use stats_ci::{proportion, StatisticsOps};
use std::sync::Arc;

/// Arithmetic state of the probe sample {+s, -s} x (n/2) (+ one 0 when n is odd), built by
/// appending (small n) or by doubling merges (sums are exact integers times s, s a power of two)
fn probe_state(n: usize, scale: f64) -> Arithmetic<f64> {
    let pair = {
        let mut p = Arithmetic::<f64>::new();
        StatisticsOps::append(&mut p, scale).unwrap();
        StatisticsOps::append(&mut p, -scale).unwrap();
        p
    };
    let mut acc = Arithmetic::<f64>::new();
    if n % 2 == 1 {
        StatisticsOps::append(&mut acc, 0.0).unwrap();
    }
    // binary expansion of n/2 pairs
    let mut pow = pair;
    let mut k = n / 2;
    while k > 0 {
        if k & 1 == 1 {
            acc = acc + pow;
        }
        pow = pow + pow;
        k >>= 1;
    }
    acc
}

fn probe_ok(st: &Arithmetic<f64>, n: usize, v: f64) -> bool {
    st.sample_count() == n && st.sample_mean() == 0.0 && (st.sample_variance() - v).abs() <= 1e-12 * v
}

fn nu_decade(nu: f64) -> &'static str {
    if nu < 10.0 {
        "nu<10"
    } else if nu < 100.0 {
        "nu<1e2"
    } else if nu < 1e3 {
        "nu<1e3"
    } else if nu < 1e4 {
        "nu<1e4"
    } else if nu < T_UNTIL {
        "nu<9e4"
    } else if nu < Z_FROM {
        "nu in switch band"
    } else {
        "nu>=1.1e5 (normal)"
    }
}

/// judge an implied critical value c at dof nu against the target probability
fn judge_c(entry: &str, nu: f64, kind: Kind, level: f64, c: f64, quad_sample: bool, case: &dyn Fn() -> Value, l: &mut Local) {
    let target = kind.target(level);
    l.eval();
    let dec = nu_decade(nu);
    l.count_s(format!("{}:{}", entry, dec));
    if level < 0.5 {
        l.count("level<1/2");
    }
    l.nontrivial(mix(&[nu.to_bits(), kind as u64, level.to_bits(), crate::props::c06::h(entry)]));
    // sign: negative critical value for one-sided levels below 1/2
    if kind != Kind::Two && level < 0.5 && !(c < 0.0) {
        l.violation(format!("{}|sign-of-critical-value|{}", entry, kind.name()), "one-sided critical value at a level below 1/2 is not negative".to_string(), case(), json!({"nu": nu, "kind": kind.name(), "level": level, "implied_c": c}));
        return;
    }
    let dev_t = (t_cdf(c, nu) - target).abs();
    let dev_z = (norm_cdf(c) - target).abs();
    let (ok, dev, tol, which) = if nu < T_UNTIL {
        (dev_t <= tol_p(nu, target), dev_t, tol_p(nu, target), "t")
    } else if nu >= Z_FROM {
        (dev_z <= TOL_P_NORMAL, dev_z, TOL_P_NORMAL, "z")
    } else {
        let okt = dev_t <= tol_p(nu, target);
        let okz = dev_z <= TOL_P_NORMAL;
        if okz {
            (true, dev_z, TOL_P_NORMAL, "z")
        } else {
            (okt, dev_t, tol_p(nu, target), "t")
        }
    };
    sci_common::rt::trace(|| format!("C06 {} {} {} {} {:e} {:e} {:e}", entry, nu, kind.name(), level, c, dev_t, dev_z));
    match dec {
        "nu<10" => l.max("coverage_error@nu<10", dev),
        "nu<1e2" => l.max("coverage_error@nu<1e2", dev),
        "nu<1e3" => l.max("coverage_error@nu<1e3", dev),
        "nu<1e4" => l.max("coverage_error@nu<1e4", dev),
        "nu<9e4" => l.max("coverage_error@nu<9e4", dev),
        "nu in switch band" => l.max("coverage_error@switch-band", dev),
        _ => l.max("coverage_error@normal-branch", dev),
    }
    let tail = target.min(1.0 - target);
    if tail < 5e-5 && nu < T_UNTIL {
        // reported, not judged: the error relative to the tail probability (the tolerance is the absolute one)
        let sf = sci_common::dist::t_cdf2(c.abs(), nu).1;
        l.max_with("far_tail_relative_error(reported)", (sf / tail - 1.0).abs(), || json!({"nu": nu, "kind": kind.name(), "level": level, "implied_c": c, "tail_target": tail, "t_sf(|c|)": sf}));
    }
    l.max_with("coverage_error_over_tolerance", dev / tol, || json!({"nu": nu, "kind": kind.name(), "level": level, "implied_c": c, "dev": dev, "tol": tol, "quantile": which}));
    if !ok {
        l.violation(
            format!("{}|coverage-error|{}|{}", entry, dec, if level < 0.5 { "L<1/2" } else { "L>=1/2" }),
            format!("the implied critical value is not the {} quantile: CDF(c) differs from the target by {:.3e} (tolerance {:.3e})", which, dev, tol),
            case(),
            json!({"nu": nu, "kind": kind.name(), "level": level, "implied_c": c, "target": target, "t_cdf(c)": t_cdf(c, nu), "norm_cdf(c)": norm_cdf(c), "tolerance": tol}),
        );
    }
    if quad_sample && nu < Z_FROM {
        // second, mathematically different implementation of the t CDF
        let q = t_cdf_quad(c, nu);
        let d = (q - t_cdf(c, nu)).abs();
        l.max("oracle_cross_check(cf_vs_quadrature)", d);
        l.count("oracle cross-checked by quadrature");
        if d > 1e-10 {
            l.count("ORACLE-DISAGREEMENT");
        }
    }
    if l.wants_sample(&format!("{}:{}", entry, dec)) {
        l.sample(&format!("{}:{}", entry, dec), || json!({"entry": entry, "nu": nu, "kind": kind.name(), "level": level, "implied_c": c, "target": target, "cdf_at_c": if which == "z" { norm_cdf(c) } else { t_cdf(c, nu) }, "quantile": which}));
    }
}

pub fn h(s: &str) -> u64 {
    sci_common::rt::hash_str(s)
}

fn judge_arith(n: usize, levels: &[f64], l: &mut Local) {
    let st = probe_state(n, 1.0);
    let nu = (n - 1) as f64;
    // exact statistics of the probe: mean 0, V = n/(n-1) (n even) or 1 (n odd)
    let v = if n % 2 == 0 { n as f64 / (n as f64 - 1.0) } else { 1.0 };
    let se = v.sqrt() / (n as f64).sqrt();
    if !probe_ok(&st, n, v) {
        // the probe's statistics are C01/C09's business; without them c cannot be recovered
        l.count("probe statistics unexpected (not judged here)");
        return;
    }
    for kind in KINDS {
        for (li, &level) in levels.iter().enumerate() {
            let case = || json!({"what": "arith", "n": n, "kind": kind, "level": level});
            let o = match call(|| st.ci_mean(conf(kind, level))).map(|i| Obs::of64(&i)) {
                Out::Ok(o) => o,
                other => {
                    l.violation(format!("Arithmetic::ci_mean|probe-rejected|{}", other.class()), "the symmetric probe sample is rejected".to_string(), case(), json!({"n": n, "outcome": other.describe()}));
                    continue;
                }
            };
            let c = match kind {
                Kind::Two => {
                    l.eval();
                    if o.lo != -o.hi {
                        l.violation("Arithmetic::ci_mean|asymmetric-about-zero-mean".to_string(), "the two-sided interval of a sample with mean exactly 0 is not symmetric (lo != -hi)".to_string(), case(), json!({"n": n, "observed": o.json()}));
                    }
                    o.hi / se
                }
                Kind::Upper => -o.lo / se,
                Kind::Lower => o.hi / se,
            };
            judge_c("Arithmetic", nu, kind, level, c, (n + li) % 97 == 0, &case, l);
            // the same interval requested through the other doors (trait-qualified ci_mean as generic code calls
            // it; for small n the one-shot entry points and a paired comparison whose differences are the probe):
            // whatever they return implies a critical value too
            let mut others: Vec<(&str, Out<Obs>)> = vec![("Arithmetic via StatisticsOps::ci_mean", call(|| <Arithmetic<f64> as StatisticsOps<f64>>::ci_mean(&st, conf(kind, level))).map(|i| Obs::of64(&i)))];
            if n <= 300 && li % 3 == n % 3 {
                let data: Vec<f64> = (0..n).map(|j| if n % 2 == 1 && j == 0 { 0.0 } else if j % 2 == 0 { 1.0 } else { -1.0 }).collect();
                let zeros = vec![0.0f64; n];
                others.push(("Arithmetic::ci (one-shot)", call(|| Arithmetic::<f64>::ci(conf(kind, level), &data)).map(|i| Obs::of64(&i))));
                others.push(("MeanCI::ci (one-shot)", call(|| <Arithmetic<f64> as stats_ci::MeanCI<f64>>::ci(conf(kind, level), &data)).map(|i| Obs::of64(&i))));
                others.push(("Paired::ci (differences = probe)", call(|| stats_ci::comparison::Paired::<f64>::ci(conf(kind, level), &data, &zeros)).map(|i| Obs::of64(&i))));
            }
            for (door, out) in others {
                l.eval();
                l.count("critical value through another entry point judged");
                match out {
                    Out::Ok(o2) if o2.lo.to_bits() == o.lo.to_bits() && o2.hi.to_bits() == o.hi.to_bits() && o2.kind == o.kind => {}
                    Out::Ok(o2) => {
                        // summation order may differ by rounding for the one-shot doors: judge the implied critical value itself
                        let c2 = match kind {
                            Kind::Two => o2.hi / se,
                            Kind::Upper => -o2.lo / se,
                            Kind::Lower => o2.hi / se,
                        };
                        if o2.kind != o.kind || !c2.is_finite() {
                            l.violation(format!("{}|kind-or-bound-differs|{}", door, kind.name()), "the interval of the probe sample through this entry point has another kind / a non-finite bound".to_string(), case(), json!({"n": n, "door": door, "observed": o2.json(), "Arithmetic::ci_mean": o.json()}));
                        } else {
                            judge_c(door, nu, kind, level, c2, false, &case, l);
                        }
                    }
                    other => l.violation(format!("{}|probe-rejected|{}", door, other.class()), "the symmetric probe sample is rejected through this entry point".to_string(), case(), json!({"n": n, "door": door, "outcome": other.describe()})),
                }
            }
        }
    }
}

/// Unpaired on two probe samples: real-valued effective dof
/// (`unit_log2`: the unit of measurement, a power of two applied to both samples: critical values have none)
fn judge_unpaired(na: usize, nb: usize, unit_log2: i32, scale_b_log2: i32, levels: &[f64], l: &mut Local) {
    let sa = 2f64.powi(unit_log2);
    let sb = 2f64.powi(unit_log2 + scale_b_log2);
    let a = probe_state(na, sa);
    let b = probe_state(nb, sb);
    let u = Unpaired::new(a, b);
    if unit_log2 != 0 {
        l.count("unpaired: unit of measurement 2^e, e != 0");
    }
    let va = sa * sa * (if na % 2 == 0 { na as f64 / (na as f64 - 1.0) } else { 1.0 }) / na as f64;
    let vb = sb * sb * (if nb % 2 == 0 { nb as f64 / (nb as f64 - 1.0) } else { 1.0 }) / nb as f64;
    let se = (va + vb).sqrt();
    let nu = (va + vb) * (va + vb) / (va * va / (na as f64 + 1.0) + vb * vb / (nb as f64 + 1.0)) - 2.0;
    if !(nu > 0.0) {
        return;
    }
    let pv = |n: usize| if n % 2 == 0 { n as f64 / (n as f64 - 1.0) } else { 1.0 };
    if !probe_ok(u.stats_a(), na, sa * sa * pv(na)) || !probe_ok(u.stats_b(), nb, sb * sb * pv(nb)) {
        l.count("probe statistics unexpected (not judged here)");
        return;
    }
    if (nu - nu.round()).abs() > 1e-6 {
        l.count("real-valued (non-integer) dof");
    }
    for kind in KINDS {
        for &level in levels.iter() {
            let case = || json!({"what": "unpaired", "na": na, "nb": nb, "unit_log2": unit_log2, "scale_b_log2": scale_b_log2, "kind": kind, "level": level});
            let o = match call(|| u.ci_mean(conf(kind, level))).map(|i| Obs::of64(&i)) {
                Out::Ok(o) => o,
                other => {
                    l.violation(format!("Unpaired::ci_mean|probe-rejected|{}", other.class()), "the symmetric probe samples are rejected".to_string(), case(), json!({"na": na, "nb": nb, "outcome": other.describe()}));
                    continue;
                }
            };
            let c = match kind {
                Kind::Two => o.hi / se,
                Kind::Upper => -o.lo / se,
                Kind::Lower => o.hi / se,
            };
            judge_c("Unpaired", nu, kind, level, c, false, &case, l);
        }
    }
}

fn judge_proportion(n: usize, k: usize, levels: &[f64], l: &mut Local) {
    for kind in KINDS {
        for &level in levels.iter() {
            let case = || json!({"what": "proportion", "n": n, "k": k, "kind": kind, "level": level});
            let o = match call(|| proportion::ci_wilson(conf(kind, level), n, k)).map(|i| Obs::of64(&i)) {
                Out::Ok(o) => o,
                _ => continue,
            };
            let ph = k as f64 / n as f64;
            // z from either root: z = sqrt(n) (p - ph) / sqrt(p (1-p)), signed by the side
            let z_of = |p: f64, upper_side: bool| {
                let z = (n as f64).sqrt() * (p - ph) / (p * (1.0 - p)).sqrt();
                if upper_side {
                    z
                } else {
                    -z
                }
            };
            let zs: Vec<f64> = match kind {
                Kind::Two => vec![z_of(o.lo, false), z_of(o.hi, true)],
                Kind::Upper => vec![z_of(o.lo, false)],
                Kind::Lower => vec![z_of(o.hi, true)],
            };
            let target = kind.target(level);
            for z in zs {
                l.eval();
                l.count("proportion z judged");
                l.nontrivial(mix(&[n as u64, k as u64, kind as u64, level.to_bits(), 6]));
                let dev = (norm_cdf(z) - target).abs();
                // recovering z from a root amplifies rounding by about 1/|p - ph|
                let amp = 4e-16 / (z.abs() / (n as f64).sqrt() * 0.5 + 1e-300) * sci_common::dist::norm_pdf(z) * z.abs().max(1e-3);
                let tol = TOL_P_NORMAL + amp;
                l.max("proportion_z_coverage_error_over_tol", dev / tol);
                if !(dev <= tol) {
                    l.violation(
                        format!("ci_wilson|z-not-normal-quantile|{}", if level < 0.5 { "L<1/2" } else { "L>=1/2" }),
                        format!("the z implied by the Wilson interval does not satisfy Phi(z) = target (off by {:.3e})", dev),
                        case(),
                        json!({"n": n, "k": k, "kind": kind.name(), "level": level, "implied_z": z, "Phi(z)": norm_cdf(z), "target": target}),
                    );
                }
            }
        }
    }
}

/// The normal-approximation (Wald) producer: its bounds are k/n -/+ z * sqrt(pq/n), so the z it used is recovered
/// directly from either bound.
fn judge_wald(n: usize, k: usize, levels: &[f64], l: &mut Local) {
    if k < 10 || n - k < 10 {
        return;
    }
    let ph = k as f64 / n as f64;
    let sd = (ph * (1.0 - ph) / n as f64).sqrt();
    for kind in KINDS {
        for &level in levels.iter() {
            let case = || json!({"what": "wald", "n": n, "k": k, "kind": kind, "level": level});
            let o = match call(|| proportion::ci_z_normal(conf(kind, level), n, k)).map(|i| Obs::of64(&i)) {
                Out::Ok(o) => o,
                _ => continue, // a one-sided bound beyond the natural far end is no interval (C02)
            };
            let zs: Vec<f64> = match kind {
                Kind::Two => vec![(ph - o.lo) / sd, (o.hi - ph) / sd],
                Kind::Upper => vec![(ph - o.lo) / sd],
                Kind::Lower => vec![(o.hi - ph) / sd],
            };
            let target = kind.target(level);
            for z in zs {
                l.eval();
                l.count("Wald z judged");
                l.nontrivial(mix(&[n as u64, k as u64, kind as u64, level.to_bits(), 66]));
                let dev = (norm_cdf(z) - target).abs();
                // the subtraction bound - k/n loses about u * max(|bound|, k/n) / sd in z
                let amp = 8e-16 * (1.0 + z.abs() * sd) / sd * sci_common::dist::norm_pdf(z);
                let tol = TOL_P_NORMAL + amp;
                l.max("wald_z_coverage_error_over_tol", dev / tol);
                if !(dev <= tol) {
                    l.violation(
                        format!("ci_z_normal|z-not-normal-quantile|{}", if level < 0.5 { "L<1/2" } else { "L>=1/2" }),
                        format!("the z implied by the normal-approximation interval does not satisfy Phi(z) = target (off by {:.3e})", dev),
                        case(),
                        json!({"n": n, "k": k, "kind": kind.name(), "level": level, "implied_z": z, "Phi(z)": norm_cdf(z), "target": target}),
                    );
                }
            }
        }
    }
}

pub fn run(run: &Arc<Run>) {
    let seed = run.cfg.seed;
    let quick = run.cfg.quick();
    let mut levels = level_grid(seed, run.cfg.by(2, 8));
    let calibrate = std::env::var("VERIF_C06_CAL").is_ok();
    if calibrate {
        // development aid: denser level set (near-centre levels stress the crate's inverse CDF)
        levels = level_grid(seed, 40);
        for k in [4, 8, 12, 16, 24, 30] {
            levels.push(0.5 + 2f64.powi(-k));
            levels.push(0.5 - 2f64.powi(-k));
        }
    }
    run.set_rule(
        "dof: quick: every integer nu = n-1 in 1..300, a geometric ladder to 2*10^5 and 3000 seeded large dof; thorough: EVERY integer nu in 1..110 003 plus the ladder beyond; both including 89 998..90 002, 99 998..100 003 and 109 998..110 003; real-valued dof through Unpaired on two symmetric probe samples of sizes (na, nb) and power-of-two scale ratios, in units 2^e for e in {0, -14, 25, -30, -52, ±200}; \
         level grid (incl. levels below 1/2) x 3 kinds. The critical value is recovered from the interval of an exactly-symmetric probe sample (mean exactly 0, exact sums), then |T_nu(c) - target| <= tol_P(nu) (normal branch: |Phi(c) - target| <= 1e-12); \
         proportion: z recovered from each Wilson root. The continued-fraction t CDF is cross-checked by quadrature on a sample of events. distinct = distinct (entry, nu, kind, level).",
    );
    run.assume("tol_P(nu, p) = 1e-10 + min(5e-8 sqrt(nu), 1e-16 nu/|p - 1/2|) is the accuracy conceded to the crate's t quantile routine; between 90 000 and 110 000 dof either distribution is accepted ('about 100 000')");
    if let Some(case) = &run.replay_case {
        let mut l = run.local();
        let level = case["level"].as_f64().unwrap_or(0.9);
        match case["what"].as_str().unwrap_or("") {
            "arith" => judge_arith(case["n"].as_u64().unwrap() as usize, &[level], &mut l),
            "unpaired" => judge_unpaired(case["na"].as_u64().unwrap() as usize, case["nb"].as_u64().unwrap() as usize, case["unit_log2"].as_i64().unwrap_or(0) as i32, case["scale_b_log2"].as_i64().unwrap() as i32, &[level], &mut l),
            "proportion" => judge_proportion(case["n"].as_u64().unwrap() as usize, case["k"].as_u64().unwrap() as usize, &[level], &mut l),
            "wald" => judge_wald(case["n"].as_u64().unwrap() as usize, case["k"].as_u64().unwrap() as usize, &[level], &mut l),
            "order" => crate::props::purity::order_independence("critical value", seed, case["i"].as_u64().unwrap(), &mut l),
            _ => {}
        }
        run.absorb(l);
        return;
    }
    // integer dof
    let mut ns: Vec<usize> = (2..=if calibrate { 30_001 } else { run.cfg.by(301usize, 2001) }).collect();
    let mut x = *ns.last().unwrap() as f64;
    let ratio = run.cfg.by(1.08, 1.02);
    while x < 2e5 {
        x *= ratio;
        ns.push(x as usize);
    }
    if !quick && !calibrate {
        // thorough: every integer dof up to beyond the switch. The underlying inverse CDF has isolated
        // (dof, p) pairs where it misses altogether (about 2 per 10^6 pairs): only a dense sweep meets them.
        ns = (2..=110_004).collect();
    } else if quick {
        // quick: a seeded sample of large dof on top of the ladder
        let mut r = Rng::from(&[seed, 0xc06d]);
        for _ in 0..3000 {
            ns.push(r.range(1_000, 100_000) as usize);
        }
    }
    for c in [90_000usize, 100_000, 110_000] {
        for d in 0..6 {
            ns.push(c - 2 + d + 1);
        }
    }
    ns.push(200_001);
    ns.sort();
    ns.dedup();
    run.par(ns.len() as u64, |i, l| judge_arith(ns[ns.len() - 1 - i as usize], &levels, l));
    // far-tail levels (1 - 2^-j down to 2^-47, 1 - 1e-5 .. 1 - 1e-10, 1e-4 .. 1e-12): all valid confidences; small
    // dof are where a heavy tail makes an unpolished or clamped quantile wrong by orders of magnitude
    let far = crate::props::c10::far_tail_levels();
    let mut far_ns: Vec<usize> = (2..=run.cfg.by(40usize, 400)).collect();
    far_ns.extend([101usize, 1_000, 5_001, 30_000, 75_000, 99_999, 150_000]);
    run.par(far_ns.len() as u64, |i, l| {
        l.count("far-tail levels judged (probe samples)");
        judge_arith(far_ns[i as usize], &far, l)
    });
    run.par(run.cfg.by(40u64, 400), |i, l| {
        let mut r = Rng::from(&[seed, 0xc06fa, i]);
        judge_unpaired(r.range(2, 30) as usize, r.range(2, 300) as usize, 0, r.range(-4, 4) as i32, &far, l);
        let n = r.range(4, 2000) as usize;
        judge_proportion(n, r.range(2, n as i64 - 2) as usize, &far, l);
    });
    // pinned probes: (dof, p) pairs at which the dependency's inverse t CDF is known to miss the
    // quantile altogether (found by the dense sweep / calibration on the pinned dependency versions).
    // They are the inputs on which a weakened refinement of the quantile shows.
    let needles: [(usize, f64); 11] = [(22_192, 0.83387939644156), (40_643, 0.82), (54_251, 0.81), (16_697, 0.79), (42_056, 0.83), (55_510, 0.83), (69_696, 0.79), (87_817, 0.75), (90_825, 0.78), (94_272, 0.81), (99_600, 0.77)];
    run.par(needles.len() as u64, |i, l| {
        let (nu, p) = needles[i as usize];
        l.count("pinned needle probes (dof, p) judged");
        judge_arith(nu + 1, &[p, 1.0 - p, 2.0 * p - 1.0], l);
    });
    // hidden state: critical values must not depend on which query ran before
    run.par(run.cfg.by(150u64, 3000), |i, l| crate::props::purity::order_independence("critical value", seed, i, l));
    // combined sample size beyond 100 000 with a small effective dof (one huge low-variance sample
    // against a handful of noisy observations): still a Student-t critical value
    let huge: Vec<(usize, usize, i32)> = vec![(99_990, 5, 8), (100_000, 3, 10), (100_001, 7, 9), (150_000, 4, 12), (200_000, 2, 12), (120_000, 9, 11)];
    run.par(huge.len() as u64, |i, l| {
        let (na, nb, sl) = huge[i as usize];
        l.count("unpaired: combined size > 100 000 with a small effective dof");
        judge_unpaired(na, nb, [0, -30, 40][i as usize % 3], sl, &levels, l);
    });
    // real-valued dof
    let nun = run.cfg.by(600u64, 4000);
    run.par(nun, |i, l| {
        let mut r = Rng::from(&[seed, 0xc06, i]);
        let na = match i % 4 {
            0 => r.range(2, 12) as usize,
            1 => r.range(2, 200) as usize,
            2 => r.range(100, 5000) as usize,
            _ => r.range(2, 40_000) as usize,
        };
        let nb = match (i / 4) % 3 {
            0 => r.range(2, 12) as usize,
            1 => r.range(2, 300) as usize,
            _ => r.range(2, 20_000) as usize,
        };
        let sl = r.range(-6, 6) as i32;
        let lv: Vec<f64> = if quick { (0..6).map(|_| *r.pick(&levels)).collect() } else { levels.clone() };
        // seconds vs nanoseconds vs astronomical units: the same samples in another unit (exact power of two)
        let unit = [0, 0, -30, -14, 25, -200, 200, -52][(i / 12 % 8) as usize];
        judge_unpaired(na, nb, unit, sl, &lv, l);
    });
    // proportion
    let np = run.cfg.by(400u64, 5000);
    run.par(np, |i, l| {
        let mut r = Rng::from(&[seed, 0xc06b, i]);
        let n = r.range(4, 2000) as usize;
        let k = r.range(2, n as i64 - 2) as usize;
        judge_proportion(n, k, &levels, l);
        judge_wald(n, k, &levels, l);
        if n >= 40 {
            // counts well inside the domain of the normal approximation as well
            judge_wald(n, n / 2 - (k % 7), &levels, l);
        }
    });
    run.require(&[
        "Arithmetic:nu<10",
        "Arithmetic:nu<1e2",
        "Arithmetic:nu<1e3",
        "Arithmetic:nu<1e4",
        "Arithmetic:nu<9e4",
        "Arithmetic:nu in switch band",
        "Arithmetic:nu>=1.1e5 (normal)",
        "unpaired: unit of measurement 2^e, e != 0",
        "Unpaired:nu<10",
        "Unpaired:nu<1e3",
        "real-valued (non-integer) dof",
        "proportion z judged",
        "Wald z judged",
        "level<1/2",
        "oracle cross-checked by quadrature",
        "pinned needle probes (dof, p) judged",
        "unpaired: combined size > 100 000 with a small effective dof",
        "order-independence groups judged",
        "far-tail levels judged (probe samples)",
        "critical value through another entry point judged",
    ]);
}
