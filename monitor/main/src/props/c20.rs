//! C20 — every advertised feature set builds; serialized state round-trips losslessly.
//! The driver (`check`) builds `sci-feat` once per feature set and runs each build; this module
//! aggregates the per-configuration results into one verdict and one evidence file.
use sci_common::rt::{mix, Run};
use serde_json::{json, Value};
use std::sync::Arc;

fn arg(args: &[String], name: &str) -> Option<String> {
    args.iter().position(|a| a == name).and_then(|i| args.get(i + 1).cloned())
}

pub fn run(run: &Arc<Run>) {
    run.set_rule(
        "configurations: the five advertised feature sets {default, std, std+approx, std+serde, std+approx+serde}; for each the monitor crate is built against /repo with exactly that set (a failed build of stats-ci is the violation) and a smoke workload (one judged call per public module, oracles shared with the main monitor) is run; \
         under the serde sets: seeded accumulation histories (appends, merged partial states; n = 0..3000) for Arithmetic/Geometric/Harmonic/Paired/Unpaired<f32,f64>, proportion::Stats, plus Confidence and Interval<i64/f64/f32/String> of each kind, serialised at a cut point with three independent formats (serde_json with float_roundtrip, CBOR — both self-describing — and a positional, non-self-describing binary format written for the monitor: field order, no names, no type tags), \
         restored copy must be ==, Debug-identical, answer every query identically (bitwise) and stay identical under the same continuation. distinct = (feature set, call) and (type, state) fingerprints summed over configurations.",
    );
    run.assume("serde_json (float_roundtrip) and ciborium are lossless for finite floats; only finite data are generated");
    let builds: Value = arg(&run.cfg.extra, "--builds").and_then(|p| std::fs::read_to_string(p).ok()).and_then(|s| serde_json::from_str(&s).ok()).unwrap_or(json!([]));
    let pdir = arg(&run.cfg.extra, "--partials").unwrap_or_default();
    if let Some(t) = arg(&run.cfg.extra, "--elapsed").and_then(|s| s.parse::<f64>().ok()) {
        *run.extra_wall_s.lock().unwrap() = t;
    }
    let mut l = run.local();
    let mut distinct_sum = 0u64;
    let mut sets_ok = vec![];
    for b in builds.as_array().cloned().unwrap_or_default() {
        let set = b["set"].as_str().unwrap_or("?").to_string();
        let status = b["status"].as_str().unwrap_or("?").to_string();
        l.eval();
        l.count_s(format!("feature set built: {}", set));
        match status.as_str() {
            "ok" => {
                let p = format!("{}/{}.json", pdir, set);
                match std::fs::read_to_string(&p).ok().and_then(|s| serde_json::from_str::<Value>(&s).ok()) {
                    Some(doc) => {
                        sets_ok.push(set.clone());
                        l.evals += doc["evals"].as_u64().unwrap_or(0);
                        l.nontrivial += doc["nontrivial"].as_u64().unwrap_or(0);
                        distinct_sum += doc["distinct"].as_u64().unwrap_or(0);
                        if let Some(m) = doc["classes"].as_object() {
                            for (k, v) in m {
                                *l.counts_s.entry(k.clone()).or_insert(0) += v.as_u64().unwrap_or(0);
                            }
                        }
                        if let Some(m) = doc["samples"].as_object() {
                            for (k, v) in m {
                                if let Some(a) = v.as_array() {
                                    if let Some(first) = a.first() {
                                        l.samples.entry(format!("{}/{}", set, k)).or_default().push(first.clone());
                                    }
                                }
                            }
                        }
                        for v in doc["violations"].as_array().cloned().unwrap_or_default() {
                            for _ in 0..v["n"].as_u64().unwrap_or(1).min(3) {
                                l.violation(format!("{}|set={}", v["sig"].as_str().unwrap_or("?"), set), v["what"].as_str().unwrap_or("?").to_string(), v["case"].clone(), v["detail"].clone());
                            }
                        }
                    }
                    None => run.inconclusive(format!("partial_result_missing_for_{}", set)),
                }
            }
            "stats-ci-build-failed" => {
                l.violation(
                    format!("build|{}|stats-ci-does-not-compile", set),
                    format!("the advertised feature set '{}' does not build", set),
                    json!({"set": set, "log": b["log"]}),
                    json!({"cargo_log_tail": b["tail"]}),
                );
            }
            "run-failed" => run.inconclusive(format!("monitor_run_failed_for_{} (crash or failed self-test of the monitor's own serialisation format)", set)),
            _ => run.inconclusive(format!("monitor_build_failed_for_{}", set)),
        }
    }
    // fold the per-configuration distinct counts into this run's counter
    for i in 0..distinct_sum.min(4_000_000) {
        run.distinct.insert(mix(&[0xd157, i]));
    }
    run.extra("feature_sets_built_and_run", json!(sets_ok));
    run.extra("distinct_nontrivial_is_sum_over_configurations", json!(distinct_sum));
    let nz = l.counts_s.get("serialised states with non-zero compensation").copied().unwrap_or(0);
    let tot = l.counts_s.get("serialised states with a compensation term").copied().unwrap_or(0);
    run.extra("share_of_serialised_states_with_nonzero_compensation", json!(if tot > 0 { nz as f64 / tot as f64 } else { 0.0 }));
    if tot > 0 && (nz as f64) < 0.1 * tot as f64 {
        run.inconclusive("fewer_than_10_percent_of_serialised_states_have_nonzero_compensation");
    }
    run.absorb(l);
    run.require(&["smoke call judged", "approx feature exercised", "serialised states with non-zero compensation", "roundtrip:Arithmetic<f64>", "roundtrip:Unpaired<f32>", "roundtrip:proportion::Stats", "roundtrip:Confidence", "roundtrip:Interval<String>", "degenerate intervals round-tripped", "states with counts beyond 2^32 round-tripped", "positional (non-self-describing) format self-test passed"]);
}
