//! C02 — proportion CI is the Wilson score interval (and Wald variant) of the counts.
use crate::api::{call, conf, ErrFam, Obs, Out};
use sci_common::dist::{norm_ppf_cached, wilson_residual, wilson_roots};
use sci_common::gen::{level_grid, Kind, KINDS};
use sci_common::rt::{jf, mix, Local, Rng, Run};
use serde_json::{json, Value};
use stats_ci::proportion;
use std::sync::Arc;

pub fn expected_domain_wilson(n: usize, k: usize) -> Vec<ErrFam> {
    // acceptable error families (empty => must be Ok); no precedence demanded when several apply
    let mut v = vec![];
    if k > n {
        v.push(ErrFam::InvalidSuccesses);
        return v;
    }
    if k < 2 {
        v.push(ErrFam::TooFewSuccesses);
    }
    if n - k < 2 {
        v.push(ErrFam::TooFewFailures);
    }
    v
}

fn expected_domain_wald(n: usize, k: usize) -> Vec<ErrFam> {
    let mut v = vec![];
    if k > n {
        v.push(ErrFam::InvalidSuccesses);
        return v;
    }
    if k < 10 {
        v.push(ErrFam::TooFewSuccesses);
    }
    if n - k < 10 {
        v.push(ErrFam::TooFewFailures);
    }
    v
}

fn same_outcome(a: &Out<Obs>, b: &Out<Obs>) -> bool {
    match (a, b) {
        (Out::Ok(x), Out::Ok(y)) => x.bits() == y.bits(),
        (Out::Err(f, _), Out::Err(g, _)) => f == g,
        (Out::Panic(_), Out::Panic(_)) => true,
        _ => false,
    }
}

fn desc(o: &Out<Obs>) -> Value {
    match o {
        Out::Ok(x) => x.json(),
        Out::Err(_, s) => json!({"error": s}),
        Out::Panic(p) => json!({"panic": format!("{}: {}", p.location, p.message)}),
    }
}

fn wilson(kind: Kind, level: f64, n: usize, k: usize) -> Out<Obs> {
    call(|| proportion::ci_wilson(conf(kind, level), n, k)).map(|i| Obs::of64(&i))
}

/// judge one (n, k, confidence) for the count-based entry points
fn judge_counts(n: usize, k: usize, kind: Kind, level: f64, case: &dyn Fn() -> Value, l: &mut Local, light: bool) {
    let c = conf(kind, level);
    let w = wilson(kind, level, n, k);
    l.eval();
    let dom = expected_domain_wilson(n, k);
    let inp = || json!({"n": n, "k": k, "kind": kind.name(), "level": level});
    match &w {
        Out::Panic(p) => {
            l.violation(format!("ci_wilson|panic@{}", p.location), format!("ci_wilson panics: {}", p.message), case(), json!({"input": inp()}));
        }
        Out::Err(f, s) => {
            if dom.is_empty() {
                l.violation(format!("ci_wilson|admissible-rejected|{}", f.name()), "ci_wilson rejects counts with 2 <= k <= n-2".to_string(), case(), json!({"input": inp(), "error": s}));
            } else if !dom.contains(f) {
                l.violation(format!("ci_wilson|wrong-error|{}", f.name()), format!("ci_wilson answers inadmissible counts with {} (documented: {:?})", f.name(), dom.iter().map(|d| d.name()).collect::<Vec<_>>()), case(), json!({"input": inp(), "error": s}));
            } else {
                l.count("wilson:inadmissible-rejected");
            }
        }
        Out::Ok(o) => {
            if !dom.is_empty() {
                l.violation(format!("ci_wilson|inadmissible-accepted|{}", dom[0].name()), "ci_wilson accepts counts outside 2 <= k <= n-2".to_string(), case(), json!({"input": inp(), "observed": o.json()}));
            } else {
                judge_wilson_value(n, k, kind, level, o, case, l);
            }
        }
    }
    if light {
        return;
    }
    // ci and Stats::ci must be the very same interval
    let a = call(|| proportion::ci(c, n, k)).map(|i| Obs::of64(&i));
    l.eval();
    if !same_outcome(&a, &w) {
        l.violation("ci|differs-from-ci_wilson".to_string(), "proportion::ci differs from ci_wilson on the same counts".to_string(), case(), json!({"input": inp(), "ci": desc(&a), "ci_wilson": desc(&w)}));
    }
    if k <= n {
        let st = proportion::Stats::new(n, k);
        let s = call(|| st.ci(c)).map(|i| Obs::of64(&i));
        l.eval();
        if !same_outcome(&s, &w) || st.population() != n || st.successes() != k {
            l.violation("Stats::ci|differs-from-ci_wilson".to_string(), "Stats::new(n,k).ci differs from ci_wilson(n,k)".to_string(), case(), json!({"input": inp(), "Stats::ci": desc(&s), "ci_wilson": desc(&w)}));
        }
    }
    // Wald
    let z = call(|| proportion::ci_z_normal(c, n, k)).map(|i| Obs::of64(&i));
    l.eval();
    let domz = expected_domain_wald(n, k);
    // A one-sided Wald interval [p - z*sd, 1] (resp. [0, p + z*sd]) does not exist when its finite end lies
    // beyond the natural far end — possible only for negative z below about -3.2 (levels < 0.0008): there
    // the statement cannot be met by any well-formed interval, so whatever the crate answers is not judged.
    let crossed = {
        let zq = norm_ppf_cached(kind.target(level));
        let p = k as f64 / n as f64;
        let sd = (p * (1.0 - p) / n as f64).sqrt();
        match kind {
            Kind::Upper => p - zq * sd > 1.0 - 1e-12,
            Kind::Lower => p + zq * sd < 1e-12,
            Kind::Two => false,
        }
    };
    match &z {
        Out::Panic(p) => l.violation(format!("ci_z_normal|panic@{}", p.location), format!("ci_z_normal panics: {}", p.message), case(), json!({"input": inp()})),
        Out::Err(f, s) => {
            if domz.is_empty() && crossed && k <= n {
                l.count("wald: one-sided bound beyond the natural far end (no well-formed interval exists; not judged)");
            } else if domz.is_empty() {
                let b = if k == 10 || n - k == 10 { "boundary(k=10_or_n-k=10)" } else { "interior" };
                l.violation(format!("ci_z_normal|admissible-rejected|{}|{}", f.name(), b), format!("ci_z_normal rejects counts with k >= 10 and n-k >= 10 ({})", b), case(), json!({"input": inp(), "error": s}));
            } else if !domz.contains(f) {
                l.violation(format!("ci_z_normal|wrong-error|{}", f.name()), format!("ci_z_normal answers inadmissible counts with {}", f.name()), case(), json!({"input": inp(), "error": s}));
            } else {
                l.count("wald:inadmissible-rejected");
            }
        }
        Out::Ok(o) => {
            if !domz.is_empty() {
                l.violation(format!("ci_z_normal|inadmissible-accepted|{}", domz[0].name()), "ci_z_normal accepts counts with k < 10 or n-k < 10".to_string(), case(), json!({"input": inp(), "observed": o.json()}));
            } else if crossed {
                l.count("wald: one-sided bound beyond the natural far end (no well-formed interval exists; not judged)");
            } else {
                l.count("wald:value-judged");
                let zq = norm_ppf_cached(kind.target(level));
                let p = k as f64 / n as f64;
                let sd = (p * (1.0 - p) / n as f64).sqrt();
                let (elo, ehi) = match kind {
                    Kind::Two => (p - zq * sd, p + zq * sd),
                    Kind::Upper => (p - zq * sd, 1.0),
                    Kind::Lower => (0.0, p + zq * sd),
                };
                let tol = 1e-13 * (1.0 + zq.abs());
                let err = (o.lo - elo).abs().max((o.hi - ehi).abs());
                l.max("wald_abs_err_over_tol", err / tol);
                if o.kind != Kind::Two || !(err <= tol) {
                    l.violation(format!("ci_z_normal|value|{}", kind.name()), "ci_z_normal is not k/n -/+ z*sqrt(pq/n) (with [.,1] / [0,.] for one-sided)".to_string(), case(), json!({"input": inp(), "observed": o.json(), "expected": [elo, ehi], "z": zq}));
                }
            }
        }
    }
}

fn judge_wilson_value(n: usize, k: usize, kind: Kind, level: f64, o: &Obs, case: &dyn Fn() -> Value, l: &mut Local) {
    l.count("wilson:value-judged");
    let inp = || json!({"n": n, "k": k, "kind": kind.name(), "level": level});
    let z = norm_ppf_cached(kind.target(level));
    let (rl, ru) = wilson_roots(n as f64, k as f64, z);
    let tol = 1e-12;
    // proportions are always returned as two-sided intervals with natural far ends
    if o.kind != Kind::Two {
        l.violation("ci_wilson|result-not-two-bounds".to_string(), "proportion interval lacks a natural far end".to_string(), case(), json!({"input": inp(), "observed": o.json()}));
        return;
    }
    let in01 = o.lo >= 0.0 && o.hi <= 1.0 && o.lo <= o.hi;
    if !in01 {
        l.violation(format!("ci_wilson|outside-unit-interval|{}", kind.name()), "a Wilson bound lies outside [0,1] or the bounds are inverted".to_string(), case(), json!({"input": inp(), "observed": o.json()}));
    }
    // the residual of the score equation is an independent second check; it is only meaningful
    // where p - k/n does not suffer cancellation
    let resid = |p: f64| if (p - k as f64 / n as f64).abs() >= 1e-7 { wilson_residual(n as f64, k as f64, z, p) } else { 0.0 };
    let is_root = |p: f64| -> (bool, f64) {
        let d = (p - rl).abs().min((p - ru).abs());
        (d <= tol && resid(p) <= 1e-6, d)
    };
    let report = |what: &str, l: &mut Local| {
        l.violation(format!("ci_wilson|{}|{}", what, kind.name()), format!("ci_wilson: {}", what), case(), json!({"input": inp(), "observed": o.json(), "roots": [rl, ru], "z": z}));
    };
    match kind {
        Kind::Two => {
            let dl = (o.lo - rl).abs();
            let dh = (o.hi - ru).abs();
            l.max("wilson_root_abs_err", dl.max(dh));
            l.max("wilson_residual_rel", resid(o.lo).max(resid(o.hi)));
            if !(dl <= tol && dh <= tol && resid(o.lo) <= 1e-6 && resid(o.hi) <= 1e-6) {
                report("two-sided bounds are not the two roots of the score equation", l);
            }
        }
        Kind::Upper => {
            if o.hi != 1.0 {
                report("upper one-sided far end is not exactly 1", l);
            }
            if level >= 0.5 {
                let d = (o.lo - rl).abs();
                l.max("wilson_root_abs_err", d);
                if !(d <= tol && resid(o.lo) <= 1e-6) {
                    report("upper one-sided finite end is not the lower root", l);
                }
            } else {
                // z is the (negative) quantile at L: centre - z*halfspan is then the *upper* root. This
                // signed reading is the only one under which intervals nest in the level (C10).
                l.count("wilson:one-sided-level<1/2 (signed quantile: finite end is the opposite root)");
                let (ok, _) = is_root(o.lo);
                let d = (o.lo - ru).abs();
                l.max("wilson_root_abs_err", d);
                if !ok || !(d <= tol) {
                    report("one-sided finite end at a level below 1/2 is not the root on the side given by the signed quantile", l);
                }
            }
        }
        Kind::Lower => {
            if o.lo != 0.0 {
                report("lower one-sided far end is not exactly 0", l);
            }
            if level >= 0.5 {
                let d = (o.hi - ru).abs();
                l.max("wilson_root_abs_err", d);
                if !(d <= tol && resid(o.hi) <= 1e-6) {
                    report("lower one-sided finite end is not the upper root", l);
                }
            } else {
                l.count("wilson:one-sided-level<1/2 (signed quantile: finite end is the opposite root)");
                let (ok, _) = is_root(o.hi);
                let d = (o.hi - rl).abs();
                l.max("wilson_root_abs_err", d);
                if !ok || !(d <= tol) {
                    report("one-sided finite end at a level below 1/2 is not the root on the side given by the signed quantile", l);
                }
            }
        }
    }
}

/// front-ends on generated data with a known count
fn judge_frontends(n: usize, k: usize, kind: Kind, level: f64, seed: u64, case: &dyn Fn() -> Value, l: &mut Local) {
    let c = conf(kind, level);
    let inp = || json!({"n": n, "k": k, "kind": kind.name(), "level": level});
    let reference = wilson(kind, level, n, k);
    let mut r = Rng::from(&[seed, n as u64, k as u64, 0xf20]);
    let mut bools = vec![false; n];
    for b in bools.iter_mut().take(k) {
        *b = true;
    }
    r.shuffle(&mut bools);
    // integer data: success <=> x > 0 ; failures are <= 0 so that an inverted predicate shows
    let ints: Vec<i32> = bools.iter().map(|b| if *b { r.range(1, 9) as i32 } else { -(r.range(0, 9) as i32) }).collect();
    let cmp = |name: &'static str, got: Out<Obs>, pop: Option<(usize, usize)>, l: &mut Local| {
        l.eval();
        l.count("front-end compared");
        if !same_outcome(&got, &reference) {
            l.violation(format!("{}|differs-from-counts", name), format!("{} does not return the interval of the counts it implies", name), case(), json!({"input": inp(), name: desc(&got), "ci_wilson(n,k)": desc(&reference)}));
        }
        if let Some((p, s)) = pop {
            if p != n || s != k {
                l.violation(format!("{}|miscounts", name), format!("{} counts population/successes wrongly", name), case(), json!({"input": inp(), "population": p, "successes": s}));
            }
        }
    };
    cmp("ci_true", call(|| proportion::ci_true(c, &bools)).map(|i| Obs::of64(&i)), None, l);
    cmp("ci_if", call(|| proportion::ci_if(c, &ints, |x| *x > 0)).map(|i| Obs::of64(&i)), None, l);
    // the same data behind user-defined views / iterators that do not announce their length
    {
        let lazy = crate::lazy::Lazy(bools.clone());
        let head = crate::lazy::HeadKnown(ints.clone(), n / 2);
        cmp("ci_true(view of unknown length)", call(|| proportion::ci_true(c, &lazy)).map(|i| Obs::of64(&i)), None, l);
        cmp("ci_if(view announcing half its length)", call(|| proportion::ci_if(c, &head, |x| *x > 0)).map(|i| Obs::of64(&i)), None, l);
        let mut sv = proportion::Stats::default();
        sv.extend(&lazy);
        cmp("Stats::extend(view of unknown length)", call(|| sv.ci(c)).map(|i| Obs::of64(&i)), Some((sv.population(), sv.successes())), l);
        let mut sw = proportion::Stats::default();
        sw.extend_if(&head, |x| *x > 0);
        cmp("Stats::extend_if(view announcing half its length)", call(|| sw.ci(c)).map(|i| Obs::of64(&i)), Some((sw.population(), sw.successes())), l);
        let su: proportion::Stats = crate::lazy::unsized_iter(&bools, 1 + (n + k) % 3).collect();
        cmp("Stats::from_iter(iterator of unknown length)", call(|| su.ci(c)).map(|i| Obs::of64(&i)), Some((su.population(), su.successes())), l);
        // a predicate with internal state is still asked once per observation: every observation is counted
        let calls = std::cell::Cell::new(0u64);
        let mut st = proportion::Stats::default();
        st.extend_if(&ints, |x| {
            calls.set(calls.get() + 1);
            // pseudo-random answer that depends on the number of calls so far, not only on x
            (calls.get().wrapping_mul(0x9E3779B97F4A7C15) >> 61) % 2 == 0 || *x > 100
        });
        l.eval();
        if st.population() != n {
            l.violation("Stats::extend_if|stateful-predicate|miscounts".to_string(), "extend_if with a predicate that has internal state does not count every observation exactly once".to_string(), case(), json!({"input": inp(), "population": st.population(), "observations": n, "predicate_calls": calls.get()}));
        }
    }
    let s1: proportion::Stats = bools.iter().copied().collect();
    cmp("Stats::from_iter", call(|| s1.ci(c)).map(|i| Obs::of64(&i)), Some((s1.population(), s1.successes())), l);
    let mut s2 = proportion::Stats::default();
    let cut = r.below(n as u64 + 1) as usize;
    s2.extend(&bools[..cut].to_vec());
    s2.extend(&bools[cut..].to_vec());
    cmp("Stats::extend", call(|| s2.ci(c)).map(|i| Obs::of64(&i)), Some((s2.population(), s2.successes())), l);
    let mut s3 = proportion::Stats::default();
    s3.extend_if(&ints, |x| *x > 0);
    cmp("Stats::extend_if", call(|| s3.ci(c)).map(|i| Obs::of64(&i)), Some((s3.population(), s3.successes())), l);
    let mut s4 = proportion::Stats::default();
    for b in bools.iter() {
        if *b {
            s4.add_success()
        } else {
            s4.add_failure()
        }
    }
    cmp("Stats::add_success/add_failure", call(|| s4.ci(c)).map(|i| Obs::of64(&i)), Some((s4.population(), s4.successes())), l);
}

fn judge_ratio(n: usize, k: usize, kind: Kind, level: f64, case: &dyn Fn() -> Value, l: &mut Local) {
    let c = conf(kind, level);
    let ratio = k as f64 / n as f64;
    let got = call(|| proportion::ci_wilson_ratio(c, n, ratio)).map(|i| Obs::of64(&i));
    let want = wilson(kind, level, n, k);
    l.eval();
    l.count("ratio front-end compared");
    if !same_outcome(&got, &want) {
        // which count did it use?
        let used = (k.saturating_sub(3)..=(k + 3).min(n)).find(|j| same_outcome(&got, &wilson(kind, level, n, *j)));
        l.violation(
            "ci_wilson_ratio|differs-from-implied-count".to_string(),
            "ci_wilson_ratio(n, k/n) is not the interval of the count k it implies".to_string(),
            case(),
            json!({"n": n, "k": k, "ratio": ratio, "kind": kind.name(), "level": level, "ci_wilson_ratio": desc(&got), "ci_wilson(n,k)": desc(&want), "count_actually_used": used}),
        );
    }
}

fn judge_bad_ratio(n: usize, ratio: f64, l: &mut Local) {
    let got = call(|| proportion::ci_wilson_ratio(conf(Kind::Two, 0.95), n, ratio));
    l.eval();
    l.count("ratio outside (0,1] rejected?");
    if let Out::Ok(i) = &got {
        l.violation("ci_wilson_ratio|invalid-ratio-accepted".to_string(), "ci_wilson_ratio accepts a ratio outside (0, 1]".to_string(), json!({"what": "bad_ratio", "n": n, "ratio": jf(ratio)}), json!({"n": n, "ratio": jf(ratio), "observed": format!("{:?}", i)}));
    }
    if let Out::Panic(p) = &got {
        l.violation(format!("ci_wilson_ratio|panic@{}", p.location), format!("ci_wilson_ratio panics: {}", p.message), json!({"what": "bad_ratio", "n": n, "ratio": jf(ratio)}), json!({"n": n, "ratio": jf(ratio)}));
    }
}

fn judge_n(n: usize, levels: &[f64], seed: u64, l: &mut Local) {
    for k in 0..=n + 1 {
        for (li, &level) in levels.iter().enumerate() {
            for kind in KINDS {
                let case = || json!({"what": "counts", "n": n, "k": k, "kind": kind, "level": level});
                judge_counts(n, k, kind, level, &case, l, false);
                // ratio and data front-ends on a rotating subset (all k for small n)
                let sel = n <= 40 || (k + li + n) % 7 == 0;
                if sel && k >= 2 && n >= k + 2 && li % 5 == 0 {
                    judge_ratio(n, k, kind, level, &|| json!({"what": "ratio", "n": n, "k": k, "kind": kind, "level": level}), l);
                }
                if sel && k <= n && (n <= 30 || li % 9 == 0) && kind == KINDS[(k + li) % 3] {
                    judge_frontends(n, k, kind, level, seed, &|| json!({"what": "frontends", "n": n, "k": k, "kind": kind, "level": level}), l);
                }
            }
        }
        if k >= 2 && n >= k + 2 {
            l.nontrivial(mix(&[n as u64, k as u64, 2]));
        }
        if k + 2 > n || k < 2 {
            l.count("inadmissible (n,k) visited");
        }
        if n >= 4 && l.wants_sample("counts") && k == n / 2 && n % 37 == 3 {
            let o = wilson(Kind::Two, 0.95, n, k);
            let z = norm_ppf_cached(0.975);
            l.sample("counts", || json!({"n": n, "k": k, "confidence": "two-sided 0.95", "ci_wilson": desc(&o), "oracle_roots": wilson_roots(n as f64, k as f64, z)}));
        }
    }
}

pub fn run(run: &Arc<Run>) {
    let seed = run.cfg.seed;
    let nmax: usize = run.cfg.by(400, 5000);
    let levels = level_grid(seed, run.cfg.by(4, 8));
    run.set_rule(format!(
        "exhaustive over 0 <= n <= {nmax}, 0 <= k <= n+1, {nl} levels (grid incl. dyadic levels and levels < 1/2) x 3 kinds, for ci, ci_wilson, ci_z_normal, Stats::new(n,k).ci; ratio and data front-ends (ci_true, ci_if, Stats::from_iter/extend/extend_if/add_*) on a rotating subset (all k for n <= 30..40); \
         sampled (n,k) log-uniformly up to 1e9 (3 in 4) and up to 2^62 (1 in 4). Oracle: cancellation-free roots of the score quadratic with own normal quantile (1e-12 abs) + residual test; domain oracle on the integer counts; Wald closed form (1e-13 rel). \
         non-trivial = admissible (n,k) (2 <= k <= n-2); distinct = distinct (n,k).",
        nmax = nmax,
        nl = levels.len()
    ));
    run.set_exhaustive(true);
    run.assume("normal quantile oracle accurate to 1e-15 (self-test against mpmath at start)");
    if let Some(case) = &run.replay_case {
        let mut l = run.local();
        let what = case["what"].as_str().unwrap_or("");
        if what == "bad_ratio" {
            let r = case["ratio"].as_f64().unwrap_or_else(|| case["ratio"].as_str().unwrap_or("NaN").parse().unwrap_or(f64::NAN));
            judge_bad_ratio(case["n"].as_u64().unwrap() as usize, r, &mut l);
        } else {
            let n = case["n"].as_u64().unwrap() as usize;
            let k = case["k"].as_u64().unwrap() as usize;
            let kind: Kind = serde_json::from_value(case["kind"].clone()).unwrap();
            let level = case["level"].as_f64().unwrap();
            let cc = || case.clone();
            match what {
                "counts" => judge_counts(n, k, kind, level, &cc, &mut l, false),
                "ratio" => judge_ratio(n, k, kind, level, &cc, &mut l),
                "frontends" => judge_frontends(n, k, kind, level, seed, &cc, &mut l),
                _ => {}
            }
        }
        run.absorb(l);
        return;
    }
    // larger n first so that the dynamic schedule balances
    run.par(nmax as u64 + 1, |i, l| judge_n(nmax - i as usize, &levels, seed, l));
    // sampled beyond the exhaustive bound
    let nsamp = run.cfg.by(20_000u64, 400_000);
    run.par(nsamp, |i, l| {
        let mut r = Rng::from(&[seed, 0xc02, i]);
        // three in four log-uniformly up to 1e9; one in four beyond, up to 2^62 (counts of a long-running
        // service: k*(n-k) exceeds 2^64 and n exceeds 2^53 there)
        let n = if i % 4 == 3 { (r.uniform((1e9f64).ln(), (4.6e18f64).ln())).exp() as usize } else { (r.uniform((nmax as f64).ln(), (1e9f64).ln())).exp() as usize };
        let k = match r.below(6) {
            0 => r.below(12) as usize,
            1 => n - r.below(12).min(n as u64) as usize,
            2 => n + r.below(2) as usize,
            _ => r.below(n as u64 + 1) as usize,
        };
        let level = *r.pick(&levels);
        let kind = KINDS[r.below(3) as usize];
        judge_counts(n, k, kind, level, &|| json!({"what": "counts", "n": n, "k": k, "kind": kind, "level": level}), l, false);
        if k >= 2 && n >= k + 2 {
            l.nontrivial(mix(&[n as u64, k as u64, 2]));
            l.count("sampled beyond exhaustive bound");
            if n > 1 << 32 {
                l.count("sampled population beyond 2^32");
            }
            // (the ratio k/n determines k only while k/n*n rounds back to k)
            if i % 3 == 0 && n <= 1 << 40 {
                judge_ratio(n, k, kind, level, &|| json!({"what": "ratio", "n": n, "k": k, "kind": kind, "level": level}), l);
            }
        }
    });
    // levels outside the customary grid: far tails (1 - 2^-j, 1 - 1e-10, 1e-12, ...: every level inside (0,1) is a
    // valid confidence) and levels a hair beside the customary quantiles 0.9 .. 0.9995, one-sided and two-sided (a
    // table, a cache or a clamp keyed on "usual" levels answers those with the quantile of the neighbour)
    let mut special: Vec<(Kind, f64)> = vec![];
    for lv in crate::props::c10::far_tail_levels() {
        for kind in KINDS {
            special.push((kind, lv));
        }
    }
    for q in [0.9, 0.95, 0.975, 0.99, 0.995, 0.999, 0.9995] {
        for d in [-1.6e-6, -3e-7, -1e-9, 1e-9, 3e-7, 1.6e-6] {
            special.push((Kind::Upper, q + d));
            special.push((Kind::Lower, q + d));
            special.push((Kind::Two, 2.0 * (q + d) - 1.0));
        }
    }
    run.par(run.cfg.by(1_500u64, 60_000), |i, l| {
        let mut r = Rng::from(&[seed, 0xc025, i]);
        let n = if i % 3 == 0 { r.range(4, 60) as usize } else { (r.uniform((60f64).ln(), (1e7f64).ln())).exp() as usize };
        let k = match r.below(4) {
            0 => 2 + r.below(3) as usize,
            1 => n - 2 - r.below(3).min(n as u64 - 4) as usize,
            _ => r.range(2, n as i64 - 2) as usize,
        };
        for &(kind, level) in special.iter() {
            l.count("level beside a customary quantile / far-tail level judged");
            judge_counts(n, k, kind, level, &|| json!({"what": "counts", "n": n, "k": k, "kind": kind, "level": level}), l, false);
        }
    });
    // ratios outside (0,1]
    let mut l = run.local();
    for n in [4usize, 10, 100, 1000] {
        for ratio in [0.0, -0.0, -0.5, -1e-300, 1.0 + 1e-9, 1.5, 2.0, 1e300, f64::INFINITY, f64::NEG_INFINITY, f64::NAN] {
            judge_bad_ratio(n, ratio, &mut l);
        }
    }
    run.absorb(l);
    run.require(&[
        "wilson:value-judged",
        "wilson:inadmissible-rejected",
        "wald:value-judged",
        "wald:inadmissible-rejected",
        "front-end compared",
        "ratio front-end compared",
        "wilson:one-sided-level<1/2 (signed quantile: finite end is the opposite root)",
        "sampled beyond exhaustive bound",
        "sampled population beyond 2^32",
        "inadmissible (n,k) visited",
        "level beside a customary quantile / far-tail level judged",
    ]);
}
