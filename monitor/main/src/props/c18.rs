//! C18 — Confidence values are valid by construction and obey their algebraic laws.
use sci_common::gen::level_grid;
use sci_common::rt::{caught, jf, mix, Local, Rng, Run};
use serde_json::{json, Value};
use stats_ci::error::CIError;
use stats_ci::Confidence;
use std::cmp::Ordering;
use std::sync::Arc;

fn valid(x: f64) -> bool {
    x > 0.0 && x < 1.0
}

fn kind_idx(c: &Confidence) -> usize {
    match c {
        Confidence::TwoSided(_) => 0,
        Confidence::UpperOneSided(_) => 1,
        Confidence::LowerOneSided(_) => 2,
    }
}
const KIND_STR: [&str; 3] = ["two-sided", "upper one-sided", "lower one-sided"];

fn class_of(x: f64) -> &'static str {
    if x.is_nan() {
        "NaN"
    } else if x.is_infinite() {
        "inf"
    } else if x <= 0.0 {
        "<=0"
    } else if x >= 1.0 {
        ">=1"
    } else if x < 1e-300 {
        "tiny-valid"
    } else if x > 1.0 - 1e-15 {
        "near-1-valid"
    } else {
        "valid"
    }
}

fn judge_level(x: f64, src: &str, l: &mut Local) {
    let case = || json!({"what": "level", "bits": format!("{:016x}", x.to_bits()), "level": jf(x), "src": src});
    let cls = class_of(x);
    l.count_s(format!("level-class:{}", cls));
    l.nontrivial(mix(&[x.to_bits(), 18]));
    let ctors: [(&str, fn(f64) -> Confidence, usize); 4] = [
        ("Confidence::new", Confidence::new, 0),
        ("Confidence::new_two_sided", Confidence::new_two_sided, 0),
        ("Confidence::new_upper", Confidence::new_upper, 1),
        ("Confidence::new_lower", Confidence::new_lower, 2),
    ];
    for (name, f, kidx) in ctors {
        l.eval();
        match caught(|| f(x)) {
            Ok(c) => {
                if !valid(x) {
                    l.violation(format!("{}|{}|accepted", name, cls), format!("{} accepts the level {} (class {})", name, x, cls), case(), json!({"constructed": format!("{:?}", c)}));
                    continue;
                }
                check_value(name, &c, x, kidx, &case, l);
            }
            Err(p) => {
                if valid(x) {
                    l.violation(format!("{}|{}|panic", name, cls), format!("{} panics for the valid level {}: {}", name, x, p.message), case(), json!({"panic": p.location}));
                } else {
                    l.count("constructor panics (invalid level)");
                }
            }
        }
    }
    // fallible conversions
    l.eval();
    match caught(|| Confidence::try_from(x)) {
        Err(p) => l.violation(format!("try_from<f64>|{}|panic", cls), format!("Confidence::try_from({}) panics: {}", x, p.message), case(), json!({"panic": p.location})),
        Ok(Ok(c)) => {
            if !valid(x) {
                l.violation(format!("try_from<f64>|{}|accepted", cls), format!("Confidence::try_from accepts {}", x), case(), json!({"constructed": format!("{:?}", c)}));
            } else {
                check_value("try_from<f64>", &c, x, 0, &case, l);
            }
        }
        Ok(Err(e)) => {
            let ok_err = match &e {
                CIError::InvalidConfidenceLevel(v) => v.to_bits() == x.to_bits() || (v.is_nan() && x.is_nan()),
                _ => false,
            };
            if valid(x) {
                l.violation(format!("try_from<f64>|{}|rejected", cls), format!("Confidence::try_from rejects the valid level {}", x), case(), json!({"error": format!("{:?}", e)}));
            } else if !ok_err {
                l.violation(format!("try_from<f64>|{}|wrong-error", cls), format!("Confidence::try_from({}) fails with {:?}, not InvalidConfidenceLevel({})", x, e, x), case(), json!({"error": format!("{:?}", e)}));
            } else {
                l.count("try_from rejects (invalid level)");
            }
        }
    }
    // f32 path: the level is the widened value
    let x32 = x as f32;
    let w = x32 as f64;
    l.eval();
    match caught(|| Confidence::try_from(x32)) {
        Err(p) => l.violation(format!("try_from<f32>|{}|panic", class_of(w)), format!("Confidence::try_from({}f32) panics: {}", x32, p.message), case(), json!({"panic": p.location})),
        Ok(Ok(c)) => {
            if !valid(w) {
                l.violation(format!("try_from<f32>|{}|accepted", class_of(w)), format!("Confidence::try_from accepts {}f32", x32), case(), json!({"constructed": format!("{:?}", c)}));
            } else {
                check_value("try_from<f32>", &c, w, 0, &case, l);
            }
        }
        Ok(Err(e)) => {
            let ok_err = match &e {
                CIError::InvalidConfidenceLevel(v) => v.to_bits() == w.to_bits() || (v.is_nan() && w.is_nan()),
                _ => false,
            };
            if valid(w) {
                l.violation(format!("try_from<f32>|{}|rejected", class_of(w)), format!("Confidence::try_from rejects the valid level {}f32", x32), case(), json!({"error": format!("{:?}", e)}));
            } else if !ok_err {
                l.violation(format!("try_from<f32>|{}|wrong-error", class_of(w)), format!("Confidence::try_from({}f32) fails with {:?}", x32, e), case(), json!({"error": format!("{:?}", e)}));
            }
        }
    }
    if l.wants_sample(cls) {
        l.sample(cls, || json!({"level": jf(x), "bits": format!("{:016x}", x.to_bits()), "valid": valid(x), "new_upper": format!("{:?}", caught(|| Confidence::new_upper(x)).map_err(|p| p.message)), "try_from": format!("{:?}", Confidence::try_from(x))}));
    }
}

fn check_value(src: &str, c: &Confidence, x: f64, kidx: usize, case: &dyn Fn() -> Value, l: &mut Local) {
    let bad = |what: &str, detail: Value, l: &mut Local| {
        l.violation(format!("{}|{}", src, what), format!("{}: {}", src, what), case(), detail);
    };
    l.eval();
    if c.level().to_bits() != x.to_bits() {
        bad("level-not-bit-equal", json!({"level()": jf(c.level()), "argument": jf(x)}), l);
    }
    if c.percent().to_bits() != (c.level() * 100.0).to_bits() {
        bad("percent!=level*100", json!({"percent()": jf(c.percent()), "level()": jf(c.level())}), l);
    }
    if kind_idx(c) != kidx {
        bad("wrong-kind", json!({"constructed": format!("{:?}", c), "expected_kind": KIND_STR[kidx]}), l);
    }
    if c.kind() != KIND_STR[kidx] {
        bad("kind()-string", json!({"kind()": c.kind(), "expected": KIND_STR[kidx]}), l);
    }
    let preds = (c.is_two_sided(), c.is_one_sided(), c.is_upper(), c.is_lower());
    let want = (kidx == 0, kidx != 0, kidx == 1, kidx == 2);
    if preds != want {
        bad("is_*-predicates", json!({"(two,one,upper,lower)": format!("{:?}", preds), "expected": format!("{:?}", want)}), l);
    }
    // flipped
    let f = c.flipped();
    let fk = [0usize, 2, 1][kidx];
    l.eval();
    if kind_idx(&f) != fk || f.level().to_bits() != x.to_bits() {
        bad("flipped", json!({"value": format!("{:?}", c), "flipped": format!("{:?}", f)}), l);
    }
    if f.flipped() != *c || kind_idx(&f.flipped()) != kidx {
        bad("flipped-not-involution", json!({"value": format!("{:?}", c), "flipped.flipped": format!("{:?}", f.flipped())}), l);
    }
    // copy equals
    let d = *c;
    if d != *c || c.partial_cmp(&d) != Some(Ordering::Equal) {
        bad("copy-not-equal", json!({"value": format!("{:?}", c)}), l);
    }
}

fn mk(k: usize, x: f64) -> Confidence {
    match k {
        0 => Confidence::TwoSided(x),
        1 => Confidence::UpperOneSided(x),
        _ => Confidence::LowerOneSided(x),
    }
}

fn judge_order(a: (usize, f64), b: (usize, f64), l: &mut Local) {
    let case = || json!({"what": "order", "a": [a.0 as f64, a.1], "b": [b.0 as f64, b.1]});
    let (ca, cb) = (mk(a.0, a.1), mk(b.0, b.1));
    let got = ca.partial_cmp(&cb);
    let want = if a.0 == b.0 { a.1.partial_cmp(&b.1) } else { None };
    l.eval();
    l.nontrivial(mix(&[a.0 as u64, a.1.to_bits(), b.0 as u64, b.1.to_bits()]));
    l.count(if a.0 == b.0 { "order:same-kind" } else { "order:cross-kind" });
    let detail = || json!({"a": format!("{:?}", ca), "b": format!("{:?}", cb), "partial_cmp": format!("{:?}", got), "expected": format!("{:?}", want)});
    if got != want {
        l.violation(
            format!("partial_cmp|{}|got={:?}", if a.0 == b.0 { "same-kind" } else { "cross-kind" }, got),
            "Confidence::partial_cmp is not 'Some(level order) exactly within a kind'".to_string(),
            case(),
            detail(),
        );
    }
    let eq_want = a.0 == b.0 && a.1 == b.1;
    l.eval();
    if (ca == cb) != eq_want {
        l.violation(format!("eq|{}", if a.0 == b.0 { "same-kind" } else { "cross-kind" }), "== is not equality of kind and level".to_string(), case(), detail());
    }
    let ops = (ca < cb, ca <= cb, ca > cb, ca >= cb);
    let w = (
        want == Some(Ordering::Less),
        matches!(want, Some(Ordering::Less) | Some(Ordering::Equal)),
        want == Some(Ordering::Greater),
        matches!(want, Some(Ordering::Greater) | Some(Ordering::Equal)),
    );
    l.eval();
    if ops != w {
        l.violation("operators".to_string(), "<, <=, >, >= inconsistent with the kind-wise level order".to_string(), case(), detail());
    }
    if l.wants_sample(if a.0 == b.0 { "order:same-kind" } else { "order:cross-kind" }) {
        l.sample(if a.0 == b.0 { "order:same-kind" } else { "order:cross-kind" }, detail);
    }
}

pub fn special_levels() -> Vec<f64> {
    let mut v = vec![
        0.0,
        -0.0,
        5e-324,
        -5e-324,
        f64::MIN_POSITIVE,
        2f64.powi(-53),
        0.5,
        1.0 - 2f64.powi(-53),
        1.0,
        1.0 + 2f64.powi(-52),
        2.0,
        -1.0,
        f64::NAN,
        -f64::NAN,
        f64::INFINITY,
        f64::NEG_INFINITY,
        f64::MAX,
        f64::MIN,
        100.0,
        95.0,
        0.95,
    ];
    // f32 neighbours of 0 and 1
    for b in [0u32, 1, 2, 0x007fffff, 0x00800000, 0x3f7fffff, 0x3f800000, 0x3f800001, 0x3f000000, 0x7f800000, 0x7fc00000, 0x80000001] {
        v.push(f32::from_bits(b) as f64);
    }
    v
}

pub fn run(run: &Arc<Run>) {
    run.set_rule(
        "levels: boundary/special values (±0, subnormals, MIN_POSITIVE, 2^-53, 1-2^-53, 1, 1+2^-52, negatives, NaN, ±inf, f32 neighbours of 0 and 1) ∪ the level grid ∪ seeded random f64 bit patterns, \
         through 4 panicking constructors and TryFrom<f64>/<f32>; all ordered pairs of (kind, level) over the finite grid for the order/equality laws. \
         A level case is non-trivial always; distinct = distinct level bit patterns / distinct ordered (kind,level) pairs.",
    );
    run.set_exhaustive(false);
    let seed = run.cfg.seed;
    {
        // Default is a construction path too (never executed before round six): valid by construction, and the
        // documented two-sided 95 %
        let mut l = run.local();
        l.eval();
        l.count("Confidence::default judged");
        match caught(|| stats_ci::Confidence::default()) {
            Ok(c) => {
                let lv = c.level();
                if !(lv > 0.0 && lv < 1.0) || !c.is_two_sided() || c.is_one_sided() || lv != 0.95 || c != stats_ci::Confidence::new_two_sided(0.95) || c.flipped() != c {
                    l.violation("Confidence::default|not-the-documented-two-sided-0.95".to_string(), "Confidence::default() is not the valid, two-sided 95% confidence its documentation states".to_string(), json!({"what": "default"}), json!({"observed": format!("{:?}", c)}));
                }
            }
            Err(p) => l.violation(format!("Confidence::default|panic@{}", p.location), "Confidence::default() panics".to_string(), json!({"what": "default"}), json!({"panic": p.message})),
        }
        run.absorb(l);
    }
    let mut levels = special_levels();
    levels.extend(level_grid(seed, 8));
    let jo = |i: u64, pool: &Vec<(usize, f64)>, l: &mut Local| {
        let n = pool.len() as u64;
        judge_order(pool[(i / n) as usize], pool[(i % n) as usize], l);
    };
    let mut pool: Vec<(usize, f64)> = vec![];
    for k in 0..3 {
        for x in level_grid(seed, 8).iter().chain([5e-324, 1.0 - 2f64.powi(-53)].iter()) {
            pool.push((k, *x));
        }
    }
    // neighbours: equality is equality of the level, not closeness
    for k in 0..3 {
        for x in [0.95f64, 0.5, 0.1, 1e-300] {
            pool.push((k, f64::from_bits(x.to_bits() + 1)));
            pool.push((k, f64::from_bits(x.to_bits() - 1)));
        }
        pool.push((k, 1.0 - 0.05));
        pool.push((k, f64::MIN_POSITIVE));
        pool.push((k, 1e-17));
        pool.push((k, 1.0 - 2f64.powi(-52)));
    }
    if let Some(case) = &run.replay_case {
        let mut l = run.local();
        if case["what"] == "level" {
            let bits = u64::from_str_radix(case["bits"].as_str().unwrap(), 16).unwrap();
            judge_level(f64::from_bits(bits), "replay", &mut l);
        } else {
            let g = |v: &Value| (v[0].as_f64().unwrap() as usize, v[1].as_f64().unwrap());
            judge_order(g(&case["a"]), g(&case["b"]), &mut l);
        }
        run.absorb(l);
        return;
    }
    run.par(levels.len() as u64, |i, l| judge_level(levels[i as usize], "listed", l));
    let nrand = run.cfg.by(1_000_000u64, 30_000_000);
    run.par(nrand, |i, l| {
        let mut r = Rng::from(&[seed, 0xc18, i]);
        let x = match i % 4 {
            0 => f64::from_bits(r.next_u64()),
            1 => r.f64(),
            2 => {
                // around the boundaries, in ulps
                let k = r.below(4);
                let b = if r.bool() { 1.0f64 } else { 0.0 };
                let bits = b.to_bits() as i64 + if r.bool() { k as i64 } else { -(k as i64) };
                f64::from_bits(bits.max(0) as u64)
            }
            _ => (f32::from_bits(r.next_u64() as u32)) as f64,
        };
        judge_level(x, "random", l);
    });
    let np = pool.len() as u64;
    run.par(np * np, |i, l| jo(i, &pool, l));
    run.require(&[
        "level-class:NaN",
        "level-class:inf",
        "level-class:<=0",
        "level-class:>=1",
        "level-class:valid",
        "level-class:tiny-valid",
        "level-class:near-1-valid",
        "order:same-kind",
        "order:cross-kind",
        "constructor panics (invalid level)",
        "try_from rejects (invalid level)",
    ]);
}
