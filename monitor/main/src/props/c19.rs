//! C19 — approximate interval equality is kind-aware and bound-wise; Display is canonical.
use crate::props::c07::ikind;
use approx::{AbsDiffEq, RelativeEq, UlpsEq};
use sci_common::rt::{hash_str, mix, Local, Rng, Run};
use serde_json::{json, Value};
use stats_ci::Interval;
use std::fmt::{Debug, Display};
use std::sync::Arc;

// (num_traits::Float: the monitor only instantiates f32 / f64, and must keep compiling against a crate whose
// approx impls are restricted to float element types)
trait Fl: num_traits::Float + Debug + Display + AbsDiffEq<Epsilon = Self> + RelativeEq + UlpsEq + Send + Sync + 'static {
    const TY: &'static str;
    fn of(x: f64) -> Self;
    fn f(self) -> f64;
    fn next_up(self, k: i32) -> Self;
}
impl Fl for f64 {
    const TY: &'static str = "f64";
    fn of(x: f64) -> f64 {
        x
    }
    fn f(self) -> f64 {
        self
    }
    fn next_up(self, k: i32) -> f64 {
        if self == 0.0 {
            return k as f64 * 5e-324;
        }
        let b = self.to_bits() as i64;
        f64::from_bits((if self > 0.0 { b + k as i64 } else { b - k as i64 }) as u64)
    }
}
impl Fl for f32 {
    const TY: &'static str = "f32";
    fn of(x: f64) -> f32 {
        x as f32
    }
    fn f(self) -> f64 {
        self as f64
    }
    fn next_up(self, k: i32) -> f32 {
        if self == 0.0 {
            return k as f32 * 1e-45;
        }
        let b = self.to_bits() as i32;
        f32::from_bits((if self > 0.0 { b + k } else { b - k }) as u32)
    }
}

fn mk<T: Fl>(kind: u8, a: T, b: T) -> Interval<T> {
    match kind {
        0 => {
            if a <= b {
                Interval::TwoSided(a, b)
            } else {
                Interval::TwoSided(b, a)
            }
        }
        1 => Interval::UpperOneSided(a),
        _ => Interval::LowerOneSided(a),
    }
}

/// corresponding bounds of two same-kind intervals
fn bounds<T: Fl>(a: &Interval<T>, b: &Interval<T>) -> Option<Vec<(T, T)>> {
    match (a, b) {
        (Interval::TwoSided(x, y), Interval::TwoSided(p, q)) => Some(vec![(*x, *p), (*y, *q)]),
        (Interval::UpperOneSided(x), Interval::UpperOneSided(p)) => Some(vec![(*x, *p)]),
        (Interval::LowerOneSided(x), Interval::LowerOneSided(p)) => Some(vec![(*x, *p)]),
        _ => None,
    }
}

fn judge<T: Fl>(a: Interval<T>, b: Interval<T>, eps: T, rel: T, ulps: u32, case: &dyn Fn() -> Value, l: &mut Local) {
    let (ka, kb) = (ikind(&a), ikind(&b));
    let bs = bounds(&a, &b);
    let same = bs.is_some();
    let det = |m: &str, got: bool, want: bool| json!({"type": T::TY, "a": format!("{:?}", a), "b": format!("{:?}", b), "epsilon": format!("{:?}", eps), "max_relative": format!("{:?}", rel), "max_ulps": ulps, "method": m, "observed": got, "expected": want});
    let chk = |m: &'static str, got: bool, rev: bool, want: bool, l: &mut Local| {
        l.eval();
        if got != want {
            l.violation(
                format!("{}|{}x{}|got={}", m, ka, kb, got),
                format!("{} on ({}, {}) is {} where the kind-aware bound-wise relation gives {}", m, ka, kb, got, want),
                case(),
                det(m, got, want),
            );
        }
        l.eval();
        if got != rev {
            l.violation(format!("{}|{}x{}|asymmetric", m, ka, kb), format!("{} is not symmetric", m), case(), det(m, got, rev));
        }
        if want {
            l.count("relation holds");
        } else if same {
            l.count("relation fails (same kind)");
        } else {
            l.count("relation fails (mixed kinds)");
        }
    };
    let w_abs = bs.as_ref().map(|v| v.iter().all(|(x, y)| T::abs_diff_eq(x, y, eps))).unwrap_or(false);
    let w_rel = bs.as_ref().map(|v| v.iter().all(|(x, y)| T::relative_eq(x, y, eps, rel))).unwrap_or(false);
    let w_ulp = bs.as_ref().map(|v| v.iter().all(|(x, y)| T::ulps_eq(x, y, eps, ulps))).unwrap_or(false);
    chk("abs_diff_eq", a.abs_diff_eq(&b, eps), b.abs_diff_eq(&a, eps), w_abs, l);
    chk("relative_eq", a.relative_eq(&b, eps, rel), b.relative_eq(&a, eps, rel), w_rel, l);
    chk("ulps_eq", a.ulps_eq(&b, eps, ulps), b.ulps_eq(&a, eps, ulps), w_ulp, l);
    // the same relations the way generic code and the approx macros reach them: trait-qualified (an inherent method of
    // the same name would shadow the trait only in method-call syntax) and through abs_diff_eq! / relative_eq! / ulps_eq!
    chk("AbsDiffEq::abs_diff_eq", approx::AbsDiffEq::abs_diff_eq(&a, &b, eps), approx::AbsDiffEq::abs_diff_eq(&b, &a, eps), w_abs, l);
    chk("RelativeEq::relative_eq", approx::RelativeEq::relative_eq(&a, &b, eps, rel), approx::RelativeEq::relative_eq(&b, &a, eps, rel), w_rel, l);
    chk("UlpsEq::ulps_eq", approx::UlpsEq::ulps_eq(&a, &b, eps, ulps), approx::UlpsEq::ulps_eq(&b, &a, eps, ulps), w_ulp, l);
    chk("abs_diff_eq!", approx::abs_diff_eq!(a, b, epsilon = eps), approx::abs_diff_eq!(b, a, epsilon = eps), w_abs, l);
    chk("relative_eq!", approx::relative_eq!(a, b, epsilon = eps, max_relative = rel), approx::relative_eq!(b, a, epsilon = eps, max_relative = rel), w_rel, l);
    chk("ulps_eq!", approx::ulps_eq!(a, b, epsilon = eps, max_ulps = ulps), approx::ulps_eq!(b, a, epsilon = eps, max_ulps = ulps), w_ulp, l);
    l.count("trait-qualified and macro forms judged");
    // the negated entry points (abs_diff_ne / relative_ne / ulps_ne and the assert_*_ne! macros built on
    // them) are the complements, in both argument orders
    for (m, ne, ne_rev, eq) in [
        ("abs_diff_ne", a.abs_diff_ne(&b, eps), b.abs_diff_ne(&a, eps), w_abs),
        ("relative_ne", a.relative_ne(&b, eps, rel), b.relative_ne(&a, eps, rel), w_rel),
        ("ulps_ne", a.ulps_ne(&b, eps, ulps), b.ulps_ne(&a, eps, ulps), w_ulp),
    ] {
        l.eval();
        l.count("negated comparison judged");
        if ne == eq || ne_rev == eq {
            l.violation(format!("{}|{}x{}|not-the-complement|got={}", m, ka, kb, ne), format!("{} on ({}, {}) is not the negation of the kind-aware bound-wise relation", m, ka, kb), case(), det(m, ne, !eq));
        }
    }
    // implied by exact equality; reflexive. (Judged for finite bounds: the scalar relations of the approx
    // crate are themselves not reflexive at infinities (|inf - inf| is NaN), and the interval relation is
    // the bound-wise one.)
    let finite = |i: &Interval<T>| match i {
        Interval::TwoSided(x, y) => x.is_finite() && y.is_finite(),
        Interval::UpperOneSided(x) | Interval::LowerOneSided(x) => x.is_finite(),
    };
    if !(finite(&a) && finite(&b)) {
        l.count("pair with an infinite bound judged bound-wise");
    } else if a == b {
        l.eval();
        if !(a.abs_diff_eq(&b, eps) && a.relative_eq(&b, eps, rel) && a.ulps_eq(&b, eps, ulps)) {
            l.violation(format!("implied-by-eq|{}", ka), "a == b but an approximate comparison fails".to_string(), case(), det("==", false, true));
        }
    }
    l.eval();
    if finite(&a) && !(a.abs_diff_eq(&a, eps) && a.relative_eq(&a, eps, rel) && a.ulps_eq(&a, eps, ulps)) {
        l.violation(format!("reflexive|{}", ka), "approximate comparison is not reflexive".to_string(), case(), det("reflexive", false, true));
    }
    l.count_s(format!("{}:{}x{}", T::TY, ka, kb));
    l.nontrivial(mix(&[hash_str(T::TY), hash_str(&format!("{:?}{:?}{:?}{:?}{}", a, b, eps, rel, ulps))]));
    let cls = format!("{}x{}:{}", ka, kb, w_abs);
    if l.wants_sample(&cls) {
        l.sample(&cls, || json!({"type": T::TY, "a": format!("{:?}", a), "b": format!("{:?}", b), "epsilon": format!("{:?}", eps), "abs_diff_eq": a.abs_diff_eq(&b, eps), "expected": w_abs, "relative_eq": a.relative_eq(&b, eps, rel), "ulps_eq": a.ulps_eq(&b, eps, ulps)}));
    }
}

fn case_at<T: Fl>(seed: u64, i: u64, l: &mut Local) {
    let mut r = Rng::from(&[seed, hash_str(T::TY), 0xc19, i]);
    let ka = r.below(3) as u8;
    let kb = if r.chance(0.7) { ka } else { r.below(3) as u8 };
    let base: [f64; 7] = [1.0, -2.5, 0.0, 1e-8, 1234.5678, -1e6, 3.0];
    let mut a1 = T::of(*r.pick(&base));
    let mut a2 = T::of(a1.f() + *r.pick(&[0.0, 1.0, 0.5, 1e3]));
    // one case in eight has an infinite bound: a two-sided interval that reaches to infinity is still not
    // a one-sided interval (different kinds are never related), and one-sided intervals at +-inf exist
    match i % 16 {
        3 => {
            a2 = T::of(f64::INFINITY);
            l.count("infinite bound");
        }
        11 => {
            a2 = a1;
            a1 = T::of(f64::NEG_INFINITY);
            l.count("infinite bound");
        }
        _ => {}
    }
    // differences per bound, independently
    let delta = |r: &mut Rng, x: T| -> (T, f64, i32) {
        match r.below(7) {
            0 => (x, 0.0, 0),
            1 => {
                let y = x.next_up(1);
                (y, (y.f() - x.f()).abs(), 1)
            }
            2 => {
                let k = r.range(2, 6) as i32;
                let y = x.next_up(k);
                (y, (y.f() - x.f()).abs(), k)
            }
            3 => (T::of(x.f() + 1e-12 * (1.0 + x.f().abs())), 0.0, -1),
            4 => (T::of(x.f() + 1e-6 * (1.0 + x.f().abs())), 0.0, -1),
            5 => (T::of(x.f() + 0.5), 0.0, -1),
            _ => (T::of(x.f() + 10.0), 0.0, -1),
        }
    };
    let (b1, _, u1) = delta(&mut r, a1);
    let (b2, _, u2) = delta(&mut r, a2);
    let a = mk(ka, a1, a2);
    let b = mk(kb, b1, b2);
    // tolerances swept around the actual differences
    let fin = |v: f64| if v.is_finite() { v } else { 0.0 };
    let d1 = fin((b1.f() - a1.f()).abs());
    let d2 = fin((b2.f() - a2.f()).abs());
    let d = *r.pick(&[d1, d2, d1.max(d2), d1.min(d2)]);
    let fac = *r.pick(&[0.0, 0.5, 1.0 - 1e-9, 1.0, 1.0 + 1e-9, 2.0]);
    let eps = T::of(d * fac);
    let scale = fin(a1.f().abs()).max(fin(b1.f().abs())).max(fin(a2.f().abs())).max(fin(b2.f().abs())).max(1e-300);
    let rel = T::of(d / scale * *r.pick(&[0.0, 0.5, 1.0 - 1e-9, 1.0, 1.0 + 1e-9, 2.0]));
    let um = u1.max(u2).max(0);
    let ulps = (um + *r.pick(&[-1, 0, 1, 0])).max(0) as u32;
    // half of the time use a zero epsilon so that relative/ulps parameters decide
    let eps_rel = if r.bool() { T::of(0.0) } else { eps };
    let case = || json!({"ty": T::TY, "i": i});
    let _ = eps_rel;
    judge(a, b, eps, rel, ulps, &case, l);
    judge(a, b, T::of(0.0), rel, ulps, &case, l);
}

fn display_checks(l: &mut Local) {
    fn one<T: PartialOrd + Display + Debug + Clone>(ty: &str, lo: T, hi: T, l: &mut Local) {
        let cases = [
            (format!("{}", Interval::TwoSided(lo.clone(), hi.clone())), format!("[{}, {}]", lo, hi), "TwoSided"),
            (format!("{}", Interval::UpperOneSided(lo.clone())), format!("[{},->)", lo), "UpperOneSided"),
            (format!("{}", Interval::LowerOneSided(hi.clone())), format!("(<-,{}]", hi), "LowerOneSided"),
        ];
        for (got, want, k) in cases {
            l.eval();
            l.count("display");
            l.nontrivial(mix(&[hash_str(ty), hash_str(&want)]));
            if got != want {
                l.violation(format!("Display|{}", k), format!("Display of a {} interval is {:?}, canonical form is {:?}", k, got, want), json!({"what": "display"}), json!({"type": ty, "observed": got, "expected": want}));
            }
            if l.wants_sample(&format!("display:{}", k)) {
                l.sample(&format!("display:{}", k), || json!({"type": ty, "rendered": got, "expected": want}));
            }
        }
        // a width, fill or precision in the placeholder must not truncate or pad the canonical form
        let iv = Interval::TwoSided(lo.clone(), hi.clone());
        let canonical = format!("[{}, {}]", lo, hi);
        for (spec, got) in [("{:.2}", format!("{:.2}", iv)), ("{:>40}", format!("{:>40}", iv)), ("{:*^50}", format!("{:*^50}", iv)), ("{:1}", format!("{:1}", iv))] {
            l.eval();
            l.count("display with format flags");
            // the element type's own formatting may honour a precision; the brackets and separator may not change
            let ok = got == canonical || (spec == "{:.2}" && got == format!("[{:.2}, {:.2}]", lo, hi));
            if !ok {
                l.violation("Display|format-flags".to_string(), format!("Display with the placeholder {} is not the canonical form", spec), json!({"what": "display"}), json!({"type": ty, "placeholder": spec, "observed": got, "canonical": canonical}));
            }
        }
    }
    one("i32", -3, 14, l);
    one("i32", 0, 0, l);
    one("u8", 0u8, 255u8, l);
    one("f64", 2.0f64, 4.5f64, l);
    one("f64", -0.0f64, 1e21f64, l);
    one("f64", 1e-7f64, f64::INFINITY, l);
    one("f32", 0.1f32, 0.3f32, l);
    one("&str", "a", "b c", l);
    one("String", "x".to_string(), "y, z".to_string(), l);
    one("char", 'a', 'z', l);
    one("i128", i128::MIN, i128::MAX, l);
}

pub fn run(run: &Arc<Run>) {
    run.set_rule(
        "seeded pairs of f64/f32 intervals over all 3x3 kind combinations; each bound differs independently by 0, 1 ulp, k ulps, 1e-12, 1e-6, 0.5 or 10; epsilon / max_relative swept around the actual differences (x0, x0.5, x(1-1e-9), x1, x(1+1e-9), x2), max_ulps around the actual ulp distance; \
         oracle = same kind && every corresponding bound satisfies the approx crate's scalar relation with the same parameters; plus symmetry, reflexivity, implication from ==. Display for i32,u8,i128,f64,f32,&str,String,char against the canonical formats. \
         distinct = distinct (type, a, b, tolerances) fingerprints.",
    );
    let seed = run.cfg.seed;
    if let Some(case) = &run.replay_case {
        let mut l = run.local();
        if case["what"] == "display" {
            display_checks(&mut l);
        } else if case["ty"] == "f64" {
            case_at::<f64>(seed, case["i"].as_u64().unwrap(), &mut l);
        } else {
            case_at::<f32>(seed, case["i"].as_u64().unwrap(), &mut l);
        }
        run.absorb(l);
        return;
    }
    let n = run.cfg.by(150_000u64, 10_000_000);
    run.par(n, |i, l| case_at::<f64>(seed, i, l));
    run.par(n, |i, l| case_at::<f32>(seed, i, l));
    let mut l = run.local();
    display_checks(&mut l);
    run.absorb(l);
    let mut req: Vec<String> = vec!["relation holds".into(), "relation fails (same kind)".into(), "relation fails (mixed kinds)".into(), "display".into(), "display with format flags".into()];
    for a in ["TwoSided", "UpperOneSided", "LowerOneSided"] {
        for b in ["TwoSided", "UpperOneSided", "LowerOneSided"] {
            req.push(format!("f64:{}x{}", a, b));
            req.push(format!("f32:{}x{}", a, b));
        }
    }
    req.push("negated comparison judged".to_string());
    req.push("pair with an infinite bound judged bound-wise".to_string());
    let r: Vec<&str> = req.iter().map(|s| s.as_str()).collect();
    run.require(&r);
}
