//! C17 — proportion CIs are monotone in the data, mirror-symmetric and shrink with n.
use crate::api::{call, conf, Obs, Out};
use sci_common::gen::{level_grid, Kind, KINDS};
use sci_common::rt::{mix, Local, Run};
use serde_json::{json, Value};
use stats_ci::proportion;
use std::sync::Arc;

#[derive(Clone, Copy, PartialEq, Debug)]
enum Method {
    Ci,
    Wilson,
    Wald,
}
impl Method {
    fn name(&self) -> &'static str {
        match self {
            Method::Ci => "ci",
            Method::Wilson => "ci_wilson",
            Method::Wald => "ci_z_normal",
        }
    }
    fn call(&self, kind: Kind, level: f64, n: usize, k: usize) -> Out<Obs> {
        let c = conf(kind, level);
        match self {
            Method::Ci => call(|| proportion::ci(c, n, k)),
            Method::Wilson => call(|| proportion::ci_wilson(c, n, k)),
            Method::Wald => call(|| proportion::ci_z_normal(c, n, k)),
        }
        .map(|i| Obs::of64(&i))
    }
    fn admissible(&self, n: usize, k: usize) -> bool {
        let m = if *self == Method::Wald { 10 } else { 2 };
        k <= n && k >= m && n - k >= m
    }
}

const MULT: [usize; 4] = [2, 3, 10, 1000];

fn judge(m: Method, n: usize, kind: Kind, levels: &[f64], l: &mut Local) {
    // table[level][k] = Some(obs) for admissible k
    let case = |k: usize, level: f64| json!({"method": m.name(), "n": n, "k": k, "kind": kind, "level": level});
    let mut prev_level: Option<Vec<Option<Obs>>> = None;
    let mut sorted: Vec<f64> = levels.to_vec();
    sorted.sort_by(|a, b| a.partial_cmp(b).unwrap());
    sorted.dedup();
    for (li, &level) in sorted.iter().enumerate() {
        let mut row: Vec<Option<Obs>> = vec![None; n + 1];
        if li % 2 == 1 {
            // every other level is first asked with a different kind: an implementation that remembers
            // a critical value per level only would then serve the wrong one for this whole row
            let other = if kind == Kind::Two { Kind::Upper } else { Kind::Two };
            if let Some(k0) = (0..=n).find(|k| m.admissible(n, *k)) {
                let _ = m.call(other, level, n, k0);
            }
        }
        for k in 0..=n {
            if !m.admissible(n, k) {
                continue;
            }
            l.eval();
            if k % 16 == 5 {
                // the other kinds at the same level are asked first: an interval must not depend on it
                for other in KINDS {
                    if other != kind {
                        let _ = m.call(other, level, n, k);
                    }
                }
            }
            match m.call(kind, level, n, k) {
                Out::Ok(o) => row[k] = Some(o),
                other => {
                    // an admissible k (or the mirror of one) that is rejected
                    l.violation(
                        format!("{}|admissible-count-rejected|{}", m.name(), other.class()),
                        format!("{} rejects an admissible count (mirror of an accepted one)", m.name()),
                        case(k, level),
                        json!({"outcome": other.describe()}),
                    );
                }
            }
        }
        for k in 0..=n {
            let o = match row[k] {
                Some(o) => o,
                None => continue,
            };
            l.nontrivial(mix(&[m as u64, n as u64, k as u64, kind as u64, level.to_bits()]));
            // (a) monotone in k
            if k + 1 <= n {
                if let Some(o2) = row[k + 1] {
                    l.eval();
                    l.count("monotone-in-k judged");
                    if o.lo > o2.lo || o.hi > o2.hi {
                        l.violation(format!("{}|not-monotone-in-k|{}", m.name(), kind.name()), "a bound decreases when the success count increases".to_string(), case(k, level), json!({"k": o.json(), "k+1": o2.json()}));
                    }
                }
            }
            // (b) mirror: CI(n, n-k) = 1 - CI(n, k) with the one-sided kinds exchanged
            {
                l.eval();
                l.count("mirror judged");
                let mo = m.call(kind.flipped(), level, n, n - k);
                match mo {
                    Out::Ok(q) => {
                        let e = ((1.0 - o.hi) - q.lo).abs().max(((1.0 - o.lo) - q.hi).abs());
                        l.max("mirror_abs_err", e);
                        if !(e <= 2e-15) {
                            l.violation(format!("{}|mirror|{}", m.name(), kind.name()), "CI(n, n-k) is not the mirror image 1 - CI(n, k) with kinds exchanged".to_string(), case(k, level), json!({"CI(n,k)": o.json(), "CI(n,n-k) at flipped kind": q.json(), "abs_err": e}));
                        }
                    }
                    other => l.violation(format!("{}|mirror-rejected|{}", m.name(), other.class()), "k is accepted but its mirror n-k is rejected".to_string(), case(k, level), json!({"mirror_outcome": other.describe()})),
                }
            }
            // (b') the success-ratio front-end obeys the same mirror symmetry
            if m == Method::Wilson && (k % 5 == 0 || n <= 40) && k >= 2 && n - k >= 2 {
                let c1 = conf(kind, level);
                let c2 = conf(kind.flipped(), level);
                let r1 = call(|| proportion::ci_wilson_ratio(c1, n, k as f64 / n as f64)).map(|i| Obs::of64(&i));
                let r2 = call(|| proportion::ci_wilson_ratio(c2, n, (n - k) as f64 / n as f64)).map(|i| Obs::of64(&i));
                l.eval();
                l.count("ratio front-end mirror judged");
                match (&r1, &r2) {
                    (Out::Ok(x), Out::Ok(y)) => {
                        let e = ((1.0 - x.hi) - y.lo).abs().max(((1.0 - x.lo) - y.hi).abs());
                        if !(e <= 2e-15) {
                            l.violation(format!("ci_wilson_ratio|mirror|{}", kind.name()), "the ratio front-end is not mirror-symmetric: CI(n, (n-k)/n) != 1 - CI(n, k/n)".to_string(), case(k, level), json!({"CI(n, k/n)": x.json(), "CI(n, (n-k)/n) at flipped kind": y.json()}));
                        }
                    }
                    (a, b) => l.violation("ci_wilson_ratio|mirror-rejected".to_string(), "the ratio front-end rejects an admissible proportion or its mirror".to_string(), case(k, level), json!({"a": a.describe(), "b": b.describe()})),
                }
            }
            // (c) within [0,1] and midpoint between k/n and 1/2 (Wilson only)
            if m != Method::Wald {
                l.eval();
                if !(o.lo >= 0.0 && o.hi <= 1.0) {
                    l.violation(format!("{}|outside-unit-interval|{}", m.name(), kind.name()), "a Wilson bound is outside [0,1]".to_string(), case(k, level), json!({"observed": o.json()}));
                }
                if kind == Kind::Two {
                    let mid = 0.5 * (o.lo + o.hi);
                    let p = k as f64 / n as f64;
                    let (a, b) = (p.min(0.5), p.max(0.5));
                    l.count("midpoint judged");
                    if !(mid >= a - 1e-15 && mid <= b + 1e-15) {
                        l.violation(format!("{}|midpoint-not-between-phat-and-half", m.name()), "the midpoint of the two-sided Wilson interval is not between k/n and 1/2".to_string(), case(k, level), json!({"observed": o.json(), "midpoint": mid, "k/n": p}));
                    }
                }
            }
            // (d) higher level => wider (two-sided: strictly wider; one-sided: finite end moves outwards)
            if let Some(prev) = &prev_level {
                if let Some(p) = prev[k] {
                    l.eval();
                    l.count("level-monotone judged");
                    let ok = match kind {
                        Kind::Two => (o.hi - o.lo) > (p.hi - p.lo),
                        Kind::Upper => o.lo < p.lo && o.hi == p.hi,
                        Kind::Lower => o.hi > p.hi && o.lo == p.lo,
                    };
                    if !ok {
                        l.violation(format!("{}|level-not-widening|{}", m.name(), kind.name()), "a higher level does not give a wider interval".to_string(), case(k, level), json!({"level": level, "observed": o.json(), "lower_level": sorted[li - 1], "observed_at_lower_level": p.json()}));
                    }
                }
            }
            // (e) same proportion on a larger population: strictly narrower
            let judged_shrink = kind == Kind::Two || level > 0.5;
            if judged_shrink && (k % 3 == 0 || n <= 60) {
                for mult in MULT {
                    l.eval();
                    l.count("shrink judged");
                    match m.call(kind, level, n * mult, k * mult) {
                        Out::Ok(q) => {
                            if !((q.hi - q.lo) < (o.hi - o.lo)) {
                                l.violation(format!("{}|not-narrower-on-larger-population|{}", m.name(), kind.name()), "the same proportion on a larger population does not give a strictly narrower interval".to_string(), case(k, level), json!({"multiplier": mult, "CI(n,k)": o.json(), "CI(mn,mk)": q.json()}));
                            }
                        }
                        other => l.violation(format!("{}|scaled-counts-rejected|{}", m.name(), other.class()), "(m*n, m*k) rejected although (n, k) is admissible".to_string(), case(k, level), json!({"multiplier": mult, "outcome": other.describe()})),
                    }
                }
            }
            if l.wants_sample(&format!("{}:{}", m.name(), kind.name())) && k == n / 3 && n % 50 == 7 {
                let mo = m.call(kind.flipped(), level, n, n - k);
                l.sample(&format!("{}:{}", m.name(), kind.name()), || json!({"method": m.name(), "n": n, "k": k, "kind": kind.name(), "level": level, "CI(n,k)": o.json(), "CI(n,n-k) at flipped kind": mo.describe()}));
            }
        }
        prev_level = Some(row);
    }
}

pub fn run(run: &Arc<Run>) {
    let seed = run.cfg.seed;
    let nmax: usize = run.cfg.by(300, 2000);
    let levels = level_grid(seed, run.cfg.by(2, 8));
    run.set_rule(format!(
        "exhaustive over 4 <= n <= {}, all admissible k, {} levels x 3 kinds, for ci / ci_wilson (monotone in k, mirror, within [0,1], midpoint, level, shrink with multipliers {:?}) and ci_z_normal (monotone, mirror, level, shrink). \
         Relations are between two or more real calls; non-trivial = admissible (method, n, k, kind, level); distinct = their fingerprints.",
        nmax,
        levels.len(),
        MULT
    ));
    run.set_exhaustive(true);
    if let Some(case) = &run.replay_case {
        let mut l = run.local();
        let m = match case["method"].as_str().unwrap_or("") {
            "ci" => Method::Ci,
            "ci_z_normal" => Method::Wald,
            _ => Method::Wilson,
        };
        let kind: Kind = serde_json::from_value(case["kind"].clone()).unwrap();
        judge(m, case["n"].as_u64().unwrap() as usize, kind, &levels, &mut l);
        run.absorb(l);
        return;
    }
    // beyond the exhaustive range: a few large populations (all k), where implementations with
    // large-sample shortcuts change regime
    let big: Vec<usize> = if run.cfg.quick() { vec![1000, 1500, 2500, 5000] } else { vec![2500, 3000, 5000, 7500, 10_000, 20_000] };
    let few_levels: Vec<f64> = vec![0.3, 0.8, 0.95, 0.99];
    run.par(big.len() as u64 * 6, |i, l| {
        let n = big[(i / 6) as usize];
        let m = [Method::Wilson, Method::Wald][(i % 6 / 3) as usize];
        l.count("large population judged");
        judge(m, n, KINDS[(i % 3) as usize], &few_levels, l);
    });
    let ns = (nmax - 3) as u64;
    run.par(ns * 9, |i, l| {
        let n = nmax - (i / 9) as usize;
        let j = (i % 9) as usize;
        let m = [Method::Ci, Method::Wilson, Method::Wald][j / 3];
        // `ci` delegates to ci_wilson: judge it on a third of the n to save time
        if m == Method::Ci && n % 3 != 0 {
            return;
        }
        judge(m, n, KINDS[j % 3], &levels, l);
    });
    run.require(&["monotone-in-k judged", "mirror judged", "midpoint judged", "level-monotone judged", "shrink judged", "large population judged", "ratio front-end mirror judged"]);
    let _: Option<Value> = None;
}
