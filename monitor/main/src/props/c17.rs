//! C17 — proportion CIs are monotone in the data, mirror-symmetric and shrink with n.
use crate::api::{call, conf, Obs, Out};
use sci_common::gen::{level_grid, Kind, KINDS};
use sci_common::rt::{mix, Local, Run};
use serde_json::{json, Value};
use stats_ci::proportion;
use std::sync::Arc;

#[derive(Clone, Copy, PartialEq, Debug)]
enum Method {
    Ci,
    Wilson,
    Wald,
}
impl Method {
    fn name(&self) -> &'static str {
        match self {
            Method::Ci => "ci",
            Method::Wilson => "ci_wilson",
            Method::Wald => "ci_z_normal",
        }
    }
    fn call(&self, kind: Kind, level: f64, n: usize, k: usize) -> Out<Obs> {
        let c = conf(kind, level);
        match self {
            Method::Ci => call(|| proportion::ci(c, n, k)),
            Method::Wilson => call(|| proportion::ci_wilson(c, n, k)),
            Method::Wald => call(|| proportion::ci_z_normal(c, n, k)),
        }
        .map(|i| Obs::of64(&i))
    }
    fn admissible(&self, n: usize, k: usize) -> bool {
        let m = if *self == Method::Wald { 10 } else { 2 };
        k <= n && k >= m && n - k >= m
    }
}

const MULT: [usize; 4] = [2, 3, 10, 1000];

/// `ks`: the success counts judged (ascending); all of 0..=n in the exhaustive sweep, clusters for huge n
fn judge(m: Method, n: usize, ks: &[usize], kind: Kind, levels: &[f64], l: &mut Local) {
    // table[level][position in ks] = Some(obs) for admissible k
    let case = |k: usize, level: f64| json!({"method": m.name(), "n": n, "k": k, "kind": kind, "level": level});
    let mut prev_level: Option<Vec<Option<Obs>>> = None;
    let mut sorted: Vec<f64> = levels.to_vec();
    sorted.sort_by(|a, b| a.partial_cmp(b).unwrap());
    sorted.dedup();
    for (li, &level) in sorted.iter().enumerate() {
        let mut row: Vec<Option<Obs>> = vec![None; ks.len()];
        if li % 2 == 1 {
            // every other level is first asked with a different kind: an implementation that remembers
            // a critical value per level only would then serve the wrong one for this whole row
            let other = if kind == Kind::Two { Kind::Upper } else { Kind::Two };
            if let Some(k0) = ks.iter().cloned().find(|k| m.admissible(n, *k)) {
                let _ = m.call(other, level, n, k0);
            }
        }
        for (pos, &k) in ks.iter().enumerate() {
            if !m.admissible(n, k) {
                continue;
            }
            l.eval();
            if k % 16 == 5 {
                // the other kinds at the same level are asked first: an interval must not depend on it
                for other in KINDS {
                    if other != kind {
                        let _ = m.call(other, level, n, k);
                    }
                }
            }
            match m.call(kind, level, n, k) {
                Out::Ok(o) => row[pos] = Some(o),
                other => {
                    // an admissible k (or the mirror of one) that is rejected
                    l.violation(
                        format!("{}|admissible-count-rejected|{}", m.name(), other.class()),
                        format!("{} rejects an admissible count (mirror of an accepted one)", m.name()),
                        case(k, level),
                        json!({"outcome": other.describe()}),
                    );
                }
            }
        }
        for (pos, &k) in ks.iter().enumerate() {
            let o = match row[pos] {
                Some(o) => o,
                None => continue,
            };
            l.nontrivial(mix(&[m as u64, n as u64, k as u64, kind as u64, level.to_bits()]));
            // (a) monotone in k
            if pos + 1 < ks.len() && ks[pos + 1] == k + 1 {
                if let Some(o2) = row[pos + 1] {
                    l.eval();
                    l.count("monotone-in-k judged");
                    if o.lo > o2.lo || o.hi > o2.hi {
                        l.violation(format!("{}|not-monotone-in-k|{}", m.name(), kind.name()), "a bound decreases when the success count increases".to_string(), case(k, level), json!({"k": o.json(), "k+1": o2.json()}));
                    }
                }
            }
            // (b) mirror: CI(n, n-k) = 1 - CI(n, k) with the one-sided kinds exchanged
            {
                l.eval();
                l.count("mirror judged");
                let mo = m.call(kind.flipped(), level, n, n - k);
                match mo {
                    Out::Ok(q) => {
                        let e = ((1.0 - o.hi) - q.lo).abs().max(((1.0 - o.lo) - q.hi).abs());
                        l.max("mirror_abs_err", e);
                        if !(e <= 2e-15) {
                            l.violation(format!("{}|mirror|{}", m.name(), kind.name()), "CI(n, n-k) is not the mirror image 1 - CI(n, k) with kinds exchanged".to_string(), case(k, level), json!({"CI(n,k)": o.json(), "CI(n,n-k) at flipped kind": q.json(), "abs_err": e}));
                        }
                    }
                    other => l.violation(format!("{}|mirror-rejected|{}", m.name(), other.class()), "k is accepted but its mirror n-k is rejected".to_string(), case(k, level), json!({"mirror_outcome": other.describe()})),
                }
            }
            // (b') the success-ratio front-end obeys the same mirror symmetry
            if m == Method::Wilson && (k % 5 == 0 || n <= 40) && k >= 2 && n - k >= 2 {
                let c1 = conf(kind, level);
                let c2 = conf(kind.flipped(), level);
                let r1 = call(|| proportion::ci_wilson_ratio(c1, n, k as f64 / n as f64)).map(|i| Obs::of64(&i));
                let r2 = call(|| proportion::ci_wilson_ratio(c2, n, (n - k) as f64 / n as f64)).map(|i| Obs::of64(&i));
                l.eval();
                l.count("ratio front-end mirror judged");
                match (&r1, &r2) {
                    (Out::Ok(x), Out::Ok(y)) => {
                        let e = ((1.0 - x.hi) - y.lo).abs().max(((1.0 - x.lo) - y.hi).abs());
                        if !(e <= 2e-15) {
                            l.violation(format!("ci_wilson_ratio|mirror|{}", kind.name()), "the ratio front-end is not mirror-symmetric: CI(n, (n-k)/n) != 1 - CI(n, k/n)".to_string(), case(k, level), json!({"CI(n, k/n)": x.json(), "CI(n, (n-k)/n) at flipped kind": y.json()}));
                        }
                    }
                    (a, b) => l.violation("ci_wilson_ratio|mirror-rejected".to_string(), "the ratio front-end rejects an admissible proportion or its mirror".to_string(), case(k, level), json!({"a": a.describe(), "b": b.describe()})),
                }
            }
            // (c) within [0,1] and midpoint between k/n and 1/2 (Wilson only)
            if m != Method::Wald {
                l.eval();
                if !(o.lo >= 0.0 && o.hi <= 1.0) {
                    l.violation(format!("{}|outside-unit-interval|{}", m.name(), kind.name()), "a Wilson bound is outside [0,1]".to_string(), case(k, level), json!({"observed": o.json()}));
                }
                if kind == Kind::Two {
                    let mid = 0.5 * (o.lo + o.hi);
                    let p = k as f64 / n as f64;
                    let (a, b) = (p.min(0.5), p.max(0.5));
                    l.count("midpoint judged");
                    if !(mid >= a - 1e-15 && mid <= b + 1e-15) {
                        l.violation(format!("{}|midpoint-not-between-phat-and-half", m.name()), "the midpoint of the two-sided Wilson interval is not between k/n and 1/2".to_string(), case(k, level), json!({"observed": o.json(), "midpoint": mid, "k/n": p}));
                    }
                }
            }
            // (d) higher level => wider (two-sided: strictly wider; one-sided: finite end moves outwards)
            if let Some(prev) = &prev_level {
                if let Some(p) = prev[pos] {
                    l.eval();
                    l.count("level-monotone judged");
                    let ok = match kind {
                        Kind::Two => (o.hi - o.lo) > (p.hi - p.lo),
                        Kind::Upper => o.lo < p.lo && o.hi == p.hi,
                        Kind::Lower => o.hi > p.hi && o.lo == p.lo,
                    };
                    if !ok {
                        l.violation(format!("{}|level-not-widening|{}", m.name(), kind.name()), "a higher level does not give a wider interval".to_string(), case(k, level), json!({"level": level, "observed": o.json(), "lower_level": sorted[li - 1], "observed_at_lower_level": p.json()}));
                    }
                }
            }
            // (e) same proportion on a larger population: strictly narrower
            let judged_shrink = kind == Kind::Two || level > 0.5;
            if judged_shrink && (k % 3 == 0 || n <= 60) {
                for mult in MULT {
                    if n.checked_mul(mult).is_none() {
                        continue;
                    }
                    l.eval();
                    l.count("shrink judged");
                    match m.call(kind, level, n * mult, k * mult) {
                        Out::Ok(q) => {
                            if !((q.hi - q.lo) < (o.hi - o.lo)) {
                                l.violation(format!("{}|not-narrower-on-larger-population|{}", m.name(), kind.name()), "the same proportion on a larger population does not give a strictly narrower interval".to_string(), case(k, level), json!({"multiplier": mult, "CI(n,k)": o.json(), "CI(mn,mk)": q.json()}));
                            }
                        }
                        other => l.violation(format!("{}|scaled-counts-rejected|{}", m.name(), other.class()), "(m*n, m*k) rejected although (n, k) is admissible".to_string(), case(k, level), json!({"multiplier": mult, "outcome": other.describe()})),
                    }
                }
            }
            if l.wants_sample(&format!("{}:{}", m.name(), kind.name())) && k == n / 3 && n % 50 == 7 {
                let mo = m.call(kind.flipped(), level, n, n - k);
                l.sample(&format!("{}:{}", m.name(), kind.name()), || json!({"method": m.name(), "n": n, "k": k, "kind": kind.name(), "level": level, "CI(n,k)": o.json(), "CI(n,n-k) at flipped kind": mo.describe()}));
            }
        }
        prev_level = Some(row);
    }
}

/// "a higher level gives a wider interval" on a dense ladder of levels: 1-L log-spaced from 0.999 down
/// to 1e-4 (600 steps, ~1.5 % per step), so that a critical value that is wrong only in a narrow band
/// of levels (extreme tails, around 1/2) breaks the ordering of two neighbouring steps
fn judge_level_ladder(m: Method, n: usize, k: usize, kind: Kind, l: &mut Local) {
    if !m.admissible(n, k) {
        return;
    }
    const STEPS: usize = 600;
    let mut prev: Option<(f64, Obs)> = None;
    for i in 0..=STEPS {
        let tail = 0.999 * (1e-4f64 / 0.999).powf(i as f64 / STEPS as f64);
        let level = (1.0 - tail).min(0.9999);
        if let Some((pl, _)) = prev {
            if !(level > pl) {
                continue;
            }
        }
        l.eval();
        let o = match m.call(kind, level, n, k) {
            Out::Ok(o) => o,
            other => {
                l.violation(format!("{}|admissible-count-rejected|{}", m.name(), other.class()), format!("{} rejects an admissible count", m.name()), json!({"method": m.name(), "n": n, "k": k, "kind": kind, "level": level, "ladder": true}), json!({"outcome": other.describe()}));
                return;
            }
        };
        if let Some((pl, p)) = prev {
            l.count("level ladder step judged");
            let ok = match kind {
                Kind::Two => (o.hi - o.lo) > (p.hi - p.lo) && o.lo <= p.lo && o.hi >= p.hi,
                Kind::Upper => o.lo < p.lo && o.hi == p.hi,
                Kind::Lower => o.hi > p.hi && o.lo == p.lo,
            };
            if !ok {
                l.violation(format!("{}|level-ladder-not-widening|{}", m.name(), kind.name()), "a slightly higher level does not give a wider interval".to_string(), json!({"method": m.name(), "n": n, "k": k, "kind": kind, "level": level, "ladder": true}), json!({"level": level, "observed": o.json(), "lower_level": pl, "observed_at_lower_level": p.json()}));
                return;
            }
        }
        prev = Some((level, o));
    }
    l.nontrivial(mix(&[m as u64, n as u64, k as u64, kind as u64, 0x1add]));
    // the levels everybody uses, against levels a hair below and above them (a critical value that is
    // special-cased, tabulated or rounded at a customary level breaks the order with its neighbours)
    for lv in [0.5, 0.75, 0.8, 0.9, 0.95, 0.975, 0.99, 0.995, 0.999] {
        let triple = [lv - 2e-6, lv, lv + 2e-6];
        let obs: Vec<Option<Obs>> = triple.iter().map(|x| if let Out::Ok(o) = m.call(kind, *x, n, k) { Some(o) } else { None }).collect();
        for w in 0..2 {
            l.eval();
            l.count("customary level vs neighbour judged");
            if let (Some(p), Some(o)) = (obs[w], obs[w + 1]) {
                let ok = match kind {
                    Kind::Two => (o.hi - o.lo) > (p.hi - p.lo),
                    Kind::Upper => o.lo < p.lo && o.hi == p.hi,
                    Kind::Lower => o.hi > p.hi && o.lo == p.lo,
                };
                if !ok {
                    l.violation(format!("{}|customary-level-not-ordered-with-neighbour|{}", m.name(), kind.name()), "a level a hair above another does not give a wider interval (at a customary level)".to_string(), json!({"method": m.name(), "n": n, "k": k, "kind": kind, "level": triple[w + 1], "ladder": true}), json!({"level": triple[w + 1], "observed": o.json(), "lower_level": triple[w], "observed_at_lower_level": p.json()}));
                    return;
                }
            } else {
                l.violation(format!("{}|admissible-count-rejected|customary-level", m.name()), format!("{} rejects an admissible count", m.name()), json!({"method": m.name(), "n": n, "k": k, "kind": kind, "level": lv, "ladder": true}), json!({}));
                return;
            }
        }
    }
}

/// success counts judged for a population too large to enumerate: runs of consecutive counts at both
/// ends of the admissible range, around n/4, n/2, 3n/4 and at a few other fractions
fn clusters(n: usize) -> Vec<usize> {
    let mut ks: Vec<usize> = vec![];
    for c in [0usize, n / 1000, n / 10, n / 4, n / 3, n / 2, n - n / 3, n - n / 4, n - n / 10, n - n / 1000, n] {
        for d in 0..14usize {
            if c + d >= 7 && c + d - 7 <= n {
                ks.push(c + d - 7);
            }
        }
    }
    ks.sort();
    ks.dedup();
    ks
}

pub fn run(run: &Arc<Run>) {
    let seed = run.cfg.seed;
    let nmax: usize = run.cfg.by(300, 2000);
    let levels = level_grid(seed, run.cfg.by(2, 8));
    run.set_rule(format!(
        "exhaustive over 4 <= n <= {}, all admissible k, {} levels x 3 kinds, for ci / ci_wilson (monotone in k, mirror, within [0,1], midpoint, level, shrink with multipliers {:?}) and ci_z_normal (monotone, mirror, level, shrink); a few populations up to 20 000 with all k, and 5 populations in [2^32, 2^40] with clusters of consecutive k at the ends and around n/1000 .. n/2; level monotonicity additionally on a ladder of 600 log-spaced tail probabilities 0.999 .. 1e-4 for 6 populations x 7 counts. \
         Relations are between two or more real calls; non-trivial = admissible (method, n, k, kind, level); distinct = their fingerprints.",
        nmax,
        levels.len(),
        MULT
    ));
    run.set_exhaustive(true);
    if let Some(case) = &run.replay_case {
        let mut l = run.local();
        let m = match case["method"].as_str().unwrap_or("") {
            "ci" => Method::Ci,
            "ci_z_normal" => Method::Wald,
            _ => Method::Wilson,
        };
        let kind: Kind = serde_json::from_value(case["kind"].clone()).unwrap();
        let n = case["n"].as_u64().unwrap() as usize;
        if case["ladder"] == json!(true) {
            judge_level_ladder(m, n, case["k"].as_u64().unwrap() as usize, kind, &mut l);
            run.absorb(l);
            return;
        }
        let ks: Vec<usize> = if n <= 100_000 { (0..=n).collect() } else { clusters(n) };
        judge(m, n, &ks, kind, &levels, &mut l);
        run.absorb(l);
        return;
    }
    // beyond the exhaustive range: a few large populations (all k), where implementations with
    // large-sample shortcuts change regime
    let big: Vec<usize> = if run.cfg.quick() { vec![1000, 1500, 2500, 5000] } else { vec![2500, 3000, 5000, 7500, 10_000, 20_000] };
    let few_levels: Vec<f64> = vec![0.3, 0.8, 0.95, 0.99];
    run.par(big.len() as u64 * 6, |i, l| {
        let n = big[(i / 6) as usize];
        let m = [Method::Wilson, Method::Wald][(i % 6 / 3) as usize];
        l.count("large population judged");
        let ks: Vec<usize> = (0..=n).collect();
        judge(m, n, &ks, KINDS[(i % 3) as usize], &few_levels, l);
    });
    // populations far beyond the enumerable range (k*(n-k) exceeds 2^64 from n ~ 8.6e9 on): clusters of k
    // (not beyond 2^40: the relations are strict inequalities between bounds that differ by ~1/n, and a
    // bound near 1 carries a rounding noise of ~1e-15; at n = 3e15 ties and one-ulp inversions are what
    // correct f64 code produces, which the property does not forbid)
    let huge: Vec<usize> = vec![1 << 32, 10_000_000_000, (1 << 36) + 12345, 200_000_000_000, 1 << 40];
    run.par(huge.len() as u64 * 6, |i, l| {
        let n = huge[(i / 6) as usize] + (seed % 7) as usize;
        let m = [Method::Wilson, Method::Wald][(i % 6 / 3) as usize];
        l.count("population beyond 2^32 judged");
        judge(m, n, &clusters(n), KINDS[(i % 3) as usize], &few_levels, l);
    });
    // dense level ladders on a few (n, k)
    let ladder_n: [usize; 6] = [4, 20, 57, 400, 5000, 1_000_003];
    run.par(ladder_n.len() as u64 * 9, |i, l| {
        let n = ladder_n[(i / 9) as usize];
        let m = [Method::Ci, Method::Wilson, Method::Wald][(i % 9 / 3) as usize];
        let kind = KINDS[(i % 3) as usize];
        for k in [2, 10, n / 3, n / 2, n - n / 3, n.saturating_sub(10), n - 2] {
            judge_level_ladder(m, n, k, kind, l);
        }
    });
    let ns = (nmax - 3) as u64;
    run.par(ns * 9, |i, l| {
        let n = nmax - (i / 9) as usize;
        let j = (i % 9) as usize;
        let m = [Method::Ci, Method::Wilson, Method::Wald][j / 3];
        // `ci` delegates to ci_wilson: judge it on a third of the n to save time
        if m == Method::Ci && n % 3 != 0 {
            return;
        }
        let ks: Vec<usize> = (0..=n).collect();
        judge(m, n, &ks, KINDS[j % 3], &levels, l);
    });
    run.require(&["monotone-in-k judged", "mirror judged", "midpoint judged", "level-monotone judged", "shrink judged", "large population judged", "population beyond 2^32 judged", "level ladder step judged", "customary level vs neighbour judged", "ratio front-end mirror judged"]);
    let _: Option<Value> = None;
}
