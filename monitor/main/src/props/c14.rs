//! C14 — intervals are well-formed and accessors / conversions are lossless.
use crate::props::c07::ikind;
use sci_common::rt::{hash_str, mix, Local, Run};
use serde_json::{json, Value};
use stats_ci::error::IntervalError;
use stats_ci::Interval;
use std::collections::hash_map::DefaultHasher;
use std::fmt::Debug;
use std::hash::{Hash, Hasher};
use std::sync::Arc;

fn err_name(e: &IntervalError) -> &'static str {
    match e {
        IntervalError::InvalidBounds => "InvalidBounds",
        IntervalError::EmptyInterval => "EmptyInterval",
    }
}

struct Ctx<'a> {
    ty: &'static str,
    case: &'a dyn Fn() -> Value,
}

fn bad(c: &Ctx, l: &mut Local, path: &str, what: String, detail: Value) {
    l.violation(format!("{}|{}", path, c.ty), what, (c.case)(), detail);
}

/// a fallible two-bound constructor must accept exactly a <= b and store the bounds verbatim
fn judge_ctor<T: Clone + PartialOrd + Debug>(c: &Ctx, l: &mut Local, path: &str, a: &T, b: &T, r: Result<Interval<T>, IntervalError>) {
    l.eval();
    let ordered = a <= b;
    match r {
        Ok(i) => {
            if !ordered {
                bad(c, l, &format!("{}|accepts-inverted", path), format!("{} returns Ok for low > high", path), json!({"low": format!("{:?}", a), "high": format!("{:?}", b), "result": format!("{:?}", i)}));
            } else {
                l.count("constructor accepts ordered bounds");
                match &i {
                    Interval::TwoSided(x, y) if x == a && y == b => {}
                    _ => bad(c, l, &format!("{}|bounds-not-stored", path), format!("{} does not store the given bounds", path), json!({"low": format!("{:?}", a), "high": format!("{:?}", b), "result": format!("{:?}", i)})),
                }
            }
        }
        Err(e) => {
            if ordered {
                bad(c, l, &format!("{}|rejects-ordered", path), format!("{} rejects low <= high", path), json!({"low": format!("{:?}", a), "high": format!("{:?}", b), "error": err_name(&e)}));
            } else if !matches!(e, IntervalError::InvalidBounds) {
                bad(c, l, &format!("{}|wrong-error", path), format!("{} fails with {} instead of InvalidBounds", path, err_name(&e)), json!({"low": format!("{:?}", a), "high": format!("{:?}", b)}));
            } else {
                l.count("constructor rejects inverted bounds (InvalidBounds)");
            }
        }
    }
}

fn judge_generic<T: Clone + PartialOrd + Debug>(c: &Ctx, l: &mut Local, a: &T, b: &T) {
    // fallible paths
    judge_ctor(c, l, "Interval::new", a, b, Interval::new(a.clone(), b.clone()));
    judge_ctor(c, l, "TryFrom<(T,T)>", a, b, Interval::try_from((a.clone(), b.clone())));
    judge_ctor(c, l, "TryFrom<(Option,Option)>", a, b, Interval::try_from((Some(a.clone()), Some(b.clone()))));
    judge_ctor(c, l, "TryFrom<RangeInclusive>", a, b, Interval::try_from(a.clone()..=b.clone()));
    // one-sided paths
    let ups = [
        ("Interval::new_upper", Interval::new_upper(a.clone())),
        ("From<RangeFrom>", Interval::from(a.clone()..)),
    ];
    for (p, i) in ups {
        l.eval();
        if i != Interval::UpperOneSided(a.clone()) {
            bad(c, l, &format!("{}|wrong-value", p), format!("{} is not [low,->)", p), json!({"low": format!("{:?}", a), "result": format!("{:?}", i)}));
        }
    }
    l.eval();
    match Interval::try_from((Some(a.clone()), None::<T>)) {
        Ok(i) if i == Interval::UpperOneSided(a.clone()) => {}
        o => bad(c, l, "TryFrom<(Some,None)>|wrong-value", "(Some(low), None) does not convert to [low,->)".into(), json!({"low": format!("{:?}", a), "result": format!("{:?}", o.map_err(|e| err_name(&e)))})),
    }
    let los = [
        ("Interval::new_lower", Interval::new_lower(b.clone())),
        ("From<RangeToInclusive>", Interval::from(..=b.clone())),
    ];
    for (p, i) in los {
        l.eval();
        if i != Interval::LowerOneSided(b.clone()) {
            bad(c, l, &format!("{}|wrong-value", p), format!("{} is not (<-,high]", p), json!({"high": format!("{:?}", b), "result": format!("{:?}", i)}));
        }
    }
    l.eval();
    match Interval::try_from((None::<T>, Some(b.clone()))) {
        Ok(i) if i == Interval::LowerOneSided(b.clone()) => {}
        o => bad(c, l, "TryFrom<(None,Some)>|wrong-value", "(None, Some(high)) does not convert to (<-,high]".into(), json!({"high": format!("{:?}", b), "result": format!("{:?}", o.map_err(|e| err_name(&e)))})),
    }
    l.eval();
    match Interval::<T>::try_from((None::<T>, None::<T>)) {
        Err(IntervalError::EmptyInterval) => l.count("(None,None) -> EmptyInterval"),
        o => bad(c, l, "TryFrom<(None,None)>|not-EmptyInterval", "(None, None) is not rejected with EmptyInterval".into(), json!({"result": format!("{:?}", o.map_err(|e| err_name(&e)))})),
    }
    // accessors, predicates, round trips on each well-formed interval built from (a, b)
    let mut ivs = vec![Interval::UpperOneSided(a.clone()), Interval::LowerOneSided(b.clone())];
    if a <= b {
        ivs.push(Interval::TwoSided(a.clone(), b.clone()));
    }
    for i in ivs.iter() {
        let (wl, wh): (Option<&T>, Option<&T>) = match i {
            Interval::TwoSided(x, y) => (Some(x), Some(y)),
            Interval::UpperOneSided(x) => (Some(x), None),
            Interval::LowerOneSided(y) => (None, Some(y)),
        };
        let k = ikind(i);
        l.eval();
        let acc_ok = i.left() == wl && i.right() == wh && i.low_as_ref() == wl && i.high_as_ref() == wh && i.low().as_ref() == wl && i.high().as_ref() == wh;
        if !acc_ok {
            bad(c, l, &format!("accessors|{}", k), "left/right/low/high/low_as_ref/high_as_ref do not return the stored bounds".into(), json!({"interval": format!("{:?}", i), "left": format!("{:?}", i.left()), "right": format!("{:?}", i.right()), "low": format!("{:?}", i.low()), "high": format!("{:?}", i.high())}));
        }
        l.eval();
        let preds = (i.is_two_sided(), i.is_one_sided(), i.is_upper(), i.is_lower());
        let want = (k == "TwoSided", k != "TwoSided", k == "UpperOneSided", k == "LowerOneSided");
        if preds != want {
            bad(c, l, &format!("kind-predicates|{}", k), "is_two_sided/is_one_sided/is_upper/is_lower inconsistent".into(), json!({"interval": format!("{:?}", i), "observed": format!("{:?}", preds)}));
        }
        l.eval();
        let deg_want = match i {
            Interval::TwoSided(x, y) => x == y,
            _ => false,
        };
        if i.is_degenerate() != deg_want {
            bad(c, l, &format!("is_degenerate|{}", k), "is_degenerate inconsistent with the bounds".into(), json!({"interval": format!("{:?}", i), "observed": i.is_degenerate()}));
        }
        if deg_want {
            l.count("degenerate two-sided");
        }
        // the standard range view reports the stored bounds as inclusive bounds
        {
            use std::ops::{Bound, RangeBounds};
            l.eval();
            let ws = match wl {
                Some(x) => Bound::Included(x),
                None => Bound::Unbounded,
            };
            let we = match wh {
                Some(x) => Bound::Included(x),
                None => Bound::Unbounded,
            };
            if i.start_bound() != ws || i.end_bound() != we {
                bad(c, l, &format!("RangeBounds::start_bound/end_bound|{}", k), "the range view does not report the stored bounds (inclusive)".into(), json!({"interval": format!("{:?}", i), "start_bound": format!("{:?}", i.start_bound()), "end_bound": format!("{:?}", i.end_bound())}));
            }
        }
        // option-pair round trip
        l.eval();
        let t: (Option<T>, Option<T>) = i.clone().into();
        if t.0.as_ref() != wl || t.1.as_ref() != wh {
            bad(c, l, &format!("Into<(Option,Option)>|{}", k), "conversion to an option pair loses a bound".into(), json!({"interval": format!("{:?}", i), "pair": format!("{:?}", t)}));
        }
        match Interval::try_from(t) {
            Ok(j) if &j == i => l.count("option-pair round trip"),
            o => bad(c, l, &format!("round-trip(Option,Option)|{}", k), "option-pair round trip does not reproduce the interval".into(), json!({"interval": format!("{:?}", i), "back": format!("{:?}", o.map_err(|e| err_name(&e)))})),
        }
        // clone
        l.eval();
        let cl = i.clone();
        if &cl != i || ikind(&cl) != k {
            bad(c, l, &format!("clone|{}", k), "a clone does not compare equal".into(), json!({"interval": format!("{:?}", i), "clone": format!("{:?}", cl)}));
        }
        // "compare equal" through the ordering interface as well: Equal, and none of the strict operators
        l.eval();
        l.count("copy judged through the ordering operators");
        let pc = i.partial_cmp(&cl);
        #[allow(clippy::neg_cmp_op_on_partial_ord)]
        if pc != Some(std::cmp::Ordering::Equal) || i < &cl || i > &cl || !(i <= &cl) || !(i >= &cl) {
            bad(c, l, &format!("clone-ordering|{}{}", k, if i.is_degenerate() { "|degenerate" } else { "" }), "an interval and its copy do not compare Equal through partial_cmp / <, >, <=, >=".into(), json!({"interval": format!("{:?}", i), "partial_cmp": format!("{:?}", pc), "<": i < &cl, ">": i > &cl, "<=": i <= &cl, ">=": i >= &cl}));
        }
    }
    // clone_from into an existing interval of every kind reproduces the source (kind and bounds)
    {
        let mut dsts = vec![Interval::UpperOneSided(b.clone()), Interval::LowerOneSided(a.clone())];
        if a <= b {
            dsts.push(Interval::TwoSided(a.clone(), b.clone()));
        }
        for src in ivs.iter() {
            for d in dsts.iter() {
                let mut dst = d.clone();
                dst.clone_from(src);
                l.eval();
                l.count("clone_from judged");
                if &dst != src || ikind(&dst) != ikind(src) || dst.left() != src.left() || dst.right() != src.right() {
                    bad(c, l, &format!("clone_from|{}->{}", ikind(src), ikind(d)), "clone_from does not reproduce the source interval".into(), json!({"source": format!("{:?}", src), "destination_before": format!("{:?}", d), "destination_after": format!("{:?}", dst)}));
                }
            }
        }
    }
    // different kinds with the same bound never compare equal
    l.eval();
    let (u, lo, tw) = (Interval::UpperOneSided(a.clone()), Interval::LowerOneSided(a.clone()), Interval::TwoSided(a.clone(), a.clone()));
    if u == lo || u == tw || lo == tw {
        bad(c, l, "eq-across-kinds", "intervals of different kinds with the same bound compare equal".into(), json!({"bound": format!("{:?}", a)}));
    }
    // ... and the `!=` operator (a separately overridable trait method) says the same, in both argument orders
    l.eval();
    #[allow(clippy::nonminimal_bool)]
    if !(u != lo) || !(lo != u) || !(u != tw) || !(tw != u) || !(lo != tw) || !(tw != lo) {
        bad(c, l, "ne-across-kinds", "`!=` is false for intervals of different kinds with the same bound".into(), json!({"bound": format!("{:?}", a)}));
    }
    #[allow(clippy::eq_op)]
    if u != u.clone() || lo != lo.clone() || tw != tw.clone() {
        bad(c, l, "ne-of-a-copy", "`!=` is true for an interval and its copy".into(), json!({"bound": format!("{:?}", a)}));
    }
    l.count("kinds-with-same-bound distinct");
}

fn h<T: Hash>(x: &T) -> u64 {
    let mut s = DefaultHasher::new();
    x.hash(&mut s);
    s.finish()
}

fn judge_hash<T: Clone + PartialOrd + Debug + Hash>(c: &Ctx, l: &mut Local, a: &T, b: &T) {
    let mut ivs = vec![Interval::UpperOneSided(a.clone()), Interval::LowerOneSided(a.clone()), Interval::TwoSided(a.clone(), a.clone())];
    if a <= b {
        ivs.push(Interval::TwoSided(a.clone(), b.clone()));
    }
    for i in ivs.iter() {
        l.eval();
        // an equal interval built independently hashes equally
        let j = match i {
            Interval::TwoSided(x, y) => Interval::new(x.clone(), y.clone()).unwrap(),
            Interval::UpperOneSided(x) => Interval::new_upper(x.clone()),
            Interval::LowerOneSided(y) => Interval::new_lower(y.clone()),
        };
        if &j == i && h(&j) != h(i) {
            bad(c, l, &format!("hash|{}", ikind(i)), "equal intervals hash differently".into(), json!({"interval": format!("{:?}", i)}));
        }
        l.count("hash of equal intervals compared");
    }
    // the hash is a function of kind and bounds: kinds with the same bound should not all collide
    l.eval();
    let hs = [h(&ivs[0]), h(&ivs[1]), h(&ivs[2])];
    if hs[0] == hs[1] && hs[1] == hs[2] {
        l.count("hash ignores kind (legal but suspicious)");
    }
}

macro_rules! numeric_checks {
    ($fname:ident, $t:ty, $lowm:ident, $highm:ident, $min:expr, $max:expr) => {
        fn $fname(c: &Ctx, l: &mut Local, a: $t, b: $t) {
            let mut ivs = vec![Interval::UpperOneSided(a), Interval::LowerOneSided(b)];
            if a <= b {
                ivs.push(Interval::TwoSided(a, b));
            }
            for i in ivs.iter() {
                let k = ikind(i);
                let (wl, wh): ($t, $t) = match i {
                    Interval::TwoSided(x, y) => (*x, *y),
                    Interval::UpperOneSided(x) => (*x, $max),
                    Interval::LowerOneSided(y) => ($min, *y),
                };
                l.eval();
                let (gl, gh) = (i.$lowm(), i.$highm());
                if !(gl == wl && gh == wh) {
                    bad(c, l, &format!("{}/{}|{}", stringify!($lowm), stringify!($highm), k), "numeric projection does not return the stored bound / the documented stand-in for the missing side".into(), json!({"interval": format!("{:?}", i), "observed": format!("{:?}", (gl, gh)), "expected": format!("{:?}", (wl, wh))}));
                }
                l.eval();
                let t: ($t, $t) = (*i).into();
                if !(t.0 == wl && t.1 == wh) {
                    bad(c, l, &format!("Into<(T,T)>|{}", k), "tuple conversion does not return the stored bound / the documented stand-in".into(), json!({"interval": format!("{:?}", i), "observed": format!("{:?}", t), "expected": format!("{:?}", (wl, wh))}));
                }
                if let Interval::TwoSided(x, y) = i {
                    // tuple round trip
                    l.eval();
                    match Interval::try_from(t) {
                        Ok(j) if j == *i => l.count("tuple round trip"),
                        o => bad(c, l, "round-trip(T,T)|TwoSided", "tuple round trip does not reproduce the interval".into(), json!({"interval": format!("{:?}", i), "back": format!("{:?}", o.map_err(|e| err_name(&e)))})),
                    }
                    let w = i.width();
                    if w != Some(*y - *x) {
                        bad(c, l, "width|TwoSided", "width is not high - low".into(), json!({"interval": format!("{:?}", i), "width": format!("{:?}", w)}));
                    }
                } else {
                    l.eval();
                    if i.width().is_some() {
                        bad(c, l, &format!("width|{}", k), "a one-sided interval reports a width".into(), json!({"interval": format!("{:?}", i), "width": format!("{:?}", i.width())}));
                    }
                }
                // Copy
                let cp = *i;
                if cp != *i {
                    bad(c, l, &format!("copy|{}", k), "a copy does not compare equal".into(), json!({"interval": format!("{:?}", i)}));
                }
            }
        }
    };
}
numeric_checks!(num_i8, i8, low_i, high_i, i8::MIN, i8::MAX);
numeric_checks!(num_i16, i16, low_i, high_i, i16::MIN, i16::MAX);
numeric_checks!(num_i32, i32, low_i, high_i, i32::MIN, i32::MAX);
numeric_checks!(num_i64, i64, low_i, high_i, i64::MIN, i64::MAX);
numeric_checks!(num_i128, i128, low_i, high_i, i128::MIN, i128::MAX);
numeric_checks!(num_isize, isize, low_i, high_i, isize::MIN, isize::MAX);
numeric_checks!(num_u8, u8, low_u, high_u, u8::MIN, u8::MAX);
numeric_checks!(num_u16, u16, low_u, high_u, u16::MIN, u16::MAX);
numeric_checks!(num_u32, u32, low_u, high_u, u32::MIN, u32::MAX);
numeric_checks!(num_u64, u64, low_u, high_u, u64::MIN, u64::MAX);
numeric_checks!(num_u128, u128, low_u, high_u, u128::MIN, u128::MAX);
numeric_checks!(num_usize, usize, low_u, high_u, usize::MIN, usize::MAX);
numeric_checks!(num_f64, f64, low_f, high_f, f64::NEG_INFINITY, f64::INFINITY);
numeric_checks!(num_f32, f32, low_f, high_f, f32::NEG_INFINITY, f32::INFINITY);

fn sweep<T: Clone + PartialOrd + Debug + Sync + Send>(
    run: &Arc<Run>,
    ty: &'static str,
    chain: Vec<T>,
    extra: &(dyn Fn(&Ctx, &mut Local, &T, &T) + Sync),
) {
    let n = chain.len() as u64;
    let judge = |ia: usize, ib: usize, l: &mut Local| {
        let case = || json!({"ty": ty, "a": ia, "b": ib});
        let c = Ctx { ty, case: &case };
        let (a, b) = (&chain[ia], &chain[ib]);
        judge_generic(&c, l, a, b);
        extra(&c, l, a, b);
        l.nontrivial(mix(&[hash_str(ty), ia as u64, ib as u64]));
        let cls = if a < b {
            "ordered"
        } else if a == b {
            "equal"
        } else {
            "inverted"
        };
        l.count_s(format!("{}:{}", ty, cls));
        if l.wants_sample(&format!("{}:{}", ty, cls)) {
            l.sample(&format!("{}:{}", ty, cls), || {
                json!({"type": ty, "low": format!("{:?}", a), "high": format!("{:?}", b),
                       "new": format!("{:?}", Interval::new(a.clone(), b.clone()).map_err(|e| err_name(&e))),
                       "try_from_tuple": format!("{:?}", Interval::try_from((a.clone(), b.clone())).map_err(|e| err_name(&e)))})
            });
        }
    };
    if let Some(case) = &run.replay_case {
        if case["ty"] == ty {
            let mut l = run.local();
            judge(case["a"].as_u64().unwrap() as usize, case["b"].as_u64().unwrap() as usize, &mut l);
            run.absorb(l);
        }
        return;
    }
    run.par(n * n, |i, l| judge((i / n) as usize, (i % n) as usize, l));
}

pub fn run(run: &Arc<Run>) {
    run.set_rule(
        "exhaustive: all ordered pairs (ordered, equal, inverted) of bounds from a 6-8 element chain per element type (12 integer types incl. MIN/MAX, f64/f32 incl. ±0 and infinities, char, &str, String) through every constructor/conversion path \
         (new, new_upper, new_lower, TryFrom<(T,T)>, TryFrom<(Option,Option)> (4 shapes), TryFrom<RangeInclusive>, From<RangeFrom>, From<RangeToInclusive>, Into<(Option,Option)>, Into<(T,T)>), all accessors, numeric projections, width, kind predicates, is_degenerate, Clone/Copy, Hash, ==. \
         distinct = distinct (type, low index, high index); all are non-trivial.",
    );
    run.set_exhaustive(true);
    run.assume("no NaN bounds (outside the quantifier)");
    let none = |_: &Ctx, _: &mut Local, _: &(), _: &()| {};
    let _ = none;
    macro_rules! int_sweep {
        ($t:ty, $name:expr, $f:ident) => {{
            let mid: $t = 7;
            let chain: Vec<$t> = vec![<$t>::MIN, <$t>::MIN + 1, 0 as $t, 1, mid, <$t>::MAX - 1, <$t>::MAX];
            let mut ch = chain.clone();
            ch.sort();
            ch.dedup();
            sweep::<$t>(run, $name, ch, &|c, l, a, b| {
                // width would overflow for extreme signed pairs: restrict the numeric projection
                // checks that subtract to pairs whose difference is representable
                if a > b || b.checked_sub(*a).is_some() {
                    $f(c, l, *a, *b);
                } else {
                    // high - low is not representable: the value of width() is not judged (it panics in a
                    // checked build and wraps in a production build), but a two-sided interval has a width
                    let i = Interval::TwoSided(*a, *b);
                    l.eval();
                    match sci_common::rt::caught(|| i.width()) {
                        Ok(None) => bad(c, l, "width|TwoSided|none", "a two-sided interval reports no width (inconsistent with is_two_sided)".into(), json!({"interval": format!("{:?}", i)})),
                        Ok(Some(_)) => l.count("width of an interval wider than the element type: Some"),
                        Err(_) => l.count("width of an interval wider than the element type: overflow panic (checked build)"),
                    }
                }
                judge_hash(c, l, a, b);
            });
        }};
    }
    int_sweep!(i8, "i8", num_i8);
    int_sweep!(i16, "i16", num_i16);
    int_sweep!(i32, "i32", num_i32);
    int_sweep!(i64, "i64", num_i64);
    int_sweep!(i128, "i128", num_i128);
    int_sweep!(isize, "isize", num_isize);
    int_sweep!(u8, "u8", num_u8);
    int_sweep!(u16, "u16", num_u16);
    int_sweep!(u32, "u32", num_u32);
    int_sweep!(u64, "u64", num_u64);
    int_sweep!(u128, "u128", num_u128);
    int_sweep!(usize, "usize", num_usize);
    // ranges that have been (partly) iterated before the conversion: the interval is that of the bounds
    // the range holds at that moment (`start()`, `end()`), whatever the iteration state
    {
        let mut l = run.local();
        for a in -3i32..=4 {
            for b in -3i32..=4 {
                for steps in 0..=9usize {
                    let mut r = a..=b;
                    for _ in 0..steps {
                        if r.next().is_none() {
                            break;
                        }
                    }
                    let (s0, e0) = (*r.start(), *r.end());
                    let want = Interval::new(s0, e0);
                    let got = Interval::try_from(r.clone());
                    l.eval();
                    l.count("iterated range converted");
                    l.nontrivial(mix(&[a as u64, b as u64, steps as u64, 0x1417]));
                    let same = match (&got, &want) {
                        (Ok(x), Ok(y)) => x == y,
                        (Err(x), Err(y)) => err_name(x) == err_name(y),
                        _ => false,
                    };
                    if !same {
                        l.violation(
                            format!("TryFrom<RangeInclusive>|iterated-range|{}", if r.is_empty() && s0 <= e0 { "exhausted" } else { "partly-consumed-or-fresh" }),
                            "converting a range that has been iterated does not give the interval of the bounds it holds".to_string(),
                            json!({"ty": "i32-iterated-range", "a": a, "b": b}),
                            json!({"range": format!("{}..={}", a, b), "steps_taken": steps, "start()": s0, "end()": e0, "observed": format!("{:?}", got.as_ref().map_err(err_name)), "Interval::new(start, end)": format!("{:?}", want.as_ref().map_err(err_name))}),
                        );
                    }
                }
            }
        }
        run.absorb(l);
    }
    sweep::<f64>(run, "f64", vec![f64::NEG_INFINITY, -1.0, -0.0, 0.0, 5e-324, 1.0, 1e300, f64::INFINITY], &|c, l, a, b| {
        if (a.is_finite() || b.is_finite()) || a.signum() != b.signum() {
            num_f64(c, l, *a, *b)
        } else if a <= b {
            // [inf, inf] / [-inf, -inf]: high - low is NaN, so the value is not judged, but the interval is
            // two-sided and degenerate and must report a width
            let i = Interval::TwoSided(*a, *b);
            l.eval();
            l.count("width of a degenerate interval at an infinity");
            if i.width().is_none() || !i.is_two_sided() || !i.is_degenerate() {
                bad(c, l, "width|TwoSided|none", "a degenerate two-sided interval at an infinity reports no width / is not two-sided and degenerate".into(), json!({"interval": format!("{:?}", i), "width": format!("{:?}", i.width())}));
            }
        }
    });
    sweep::<f32>(run, "f32", vec![f32::NEG_INFINITY, -1.0, -0.0, 0.0, 1e-45, 1.0, f32::MAX, f32::INFINITY], &|c, l, a, b| {
        if (a.is_finite() || b.is_finite()) || a.signum() != b.signum() {
            num_f32(c, l, *a, *b)
        } else if a <= b {
            // [inf, inf] / [-inf, -inf]: high - low is NaN, so the value is not judged, but the interval is
            // two-sided and degenerate and must report a width
            let i = Interval::TwoSided(*a, *b);
            l.eval();
            l.count("width of a degenerate interval at an infinity");
            if i.width().is_none() || !i.is_two_sided() || !i.is_degenerate() {
                bad(c, l, "width|TwoSided|none", "a degenerate two-sided interval at an infinity reports no width / is not two-sided and degenerate".into(), json!({"interval": format!("{:?}", i), "width": format!("{:?}", i.width())}));
            }
        }
    });
    sweep::<char>(run, "char", vec!['\0', 'A', 'a', 'b', 'z', '\u{10ffff}'], &|c, l, a, b| judge_hash(c, l, a, b));
    sweep::<&str>(run, "&str", vec!["", "a", "aa", "ab", "b", "~"], &|c, l, a, b| judge_hash(c, l, a, b));
    sweep::<String>(run, "String", ["", "a", "aa", "ab", "b", "~"].iter().map(|s| s.to_string()).collect(), &|c, l, a, b| judge_hash(c, l, a, b));
    if run.replay_case.is_some() {
        return;
    }
    let mut req: Vec<String> = vec![
        "constructor accepts ordered bounds".into(),
        "iterated range converted".into(),
        "constructor rejects inverted bounds (InvalidBounds)".into(),
        "(None,None) -> EmptyInterval".into(),
        "degenerate two-sided".into(),
        "option-pair round trip".into(),
        "tuple round trip".into(),
        "hash of equal intervals compared".into(),
        "kinds-with-same-bound distinct".into(),
        "clone_from judged".into(),
    ];
    for ty in ["i32", "u8", "i64", "f64", "char", "&str", "String"] {
        for c in ["ordered", "equal", "inverted"] {
            req.push(format!("{}:{}", ty, c));
        }
    }
    let r: Vec<&str> = req.iter().map(|s| s.as_str()).collect();
    run.require(&r);
}
