//! C12 — exact binomial coverage of proportion and quantile intervals is near nominal.
//! The real entry points are called for every outcome k (resp. every grid q); the coverage
//! probability is then summed exactly against the monitor's own binomial pmf.
use crate::api::{call, conf, Obs, Out};
use sci_common::dist::binom_pmf;
use sci_common::gen::{Kind, KINDS};
use sci_common::rt::{mix, Local, Rng, Run};
use serde_json::{json, Value};
use stats_ci::{proportion, quantile, Interval};
use std::sync::Arc;

pub const LEVELS: [f64; 4] = [0.8, 0.9, 0.95, 0.99];

// Documented slack (DESIGN.md, C12). Calibrated on the repaired tree; see evidence
// `worst_observed` for the margins that remain.
pub const SLACK_PT_PMF: f64 = 0.6; // x max_k Bin(k; n, p)
pub const SLACK_PT_ABS: f64 = 0.002;
pub const SLACK_AVG: f64 = 0.004;
pub const SLACK_Q_PMF: f64 = 1.5; // x max_k Bin(k; n, q)
pub const SLACK_Q_ABS: f64 = 0.002;
/// above nominal, a one-order-statistic conservative interval may exceed the level by this much
pub const SLACK_Q_ABOVE_PMF: f64 = 1.5;

/// entry points through which the interval of an outcome k is obtained
pub const FRONTS: [&str; 8] = [
    "proportion::ci(n, k)",
    "ci_wilson_ratio(n, k/n)",
    "Stats fed in batches (extend x2, add_*, extend) .ci",
    "ci_true(data)",
    "Stats collected from an iterator of unknown length .ci",
    "Stats of shards of 10 merged with + / += .ci",
    "ci_if(measurements, predicate)",
    "Stats::extend_if in two batches + add_* .ci",
];

fn judge_proportion(n: usize, seed: u64, front: usize, l: &mut Local) {
    // intervals for every outcome, per confidence
    // Call order matters for an implementation with hidden state (caches keyed on part of the
    // confidence): for even n all kinds are queried per outcome k and level in turn (lower, two-sided,
    // upper at the same level back to back), for odd n one confidence at a time.
    let mut table: Vec<(Kind, f64, Vec<Option<Obs>>)> = vec![];
    for kind in KINDS {
        for level in LEVELS {
            table.push((kind, level, vec![None; n + 1]));
        }
    }
    l.count_s(format!("front-end:{}", FRONTS[front]));
    // the sample behind outcome k for the data-taking front-ends: k successes spread over n trials
    let data = |k: usize| -> Vec<bool> { (0..n).map(|i| (i * k) / n != ((i + 1) * k) / n).collect() };
    let ask = |kind: Kind, level: f64, k: usize, l: &mut Local| -> Option<Obs> {
        l.eval();
        let c = conf(kind, level);
        let out = match front {
            0 => call(|| proportion::ci(c, n, k)),
            1 => {
                if k == 0 {
                    // a success ratio of 0 is outside the documented domain of the ratio front-end: no interval
                    return None;
                }
                call(|| proportion::ci_wilson_ratio(c, n, k as f64 / n as f64))
            }
            2 => {
                let d = data(k);
                let (a, b) = (n / 3, n / 2);
                let mut st = proportion::Stats::default();
                st.extend(&d[..a].to_vec());
                st.extend(&d[a..b].to_vec());
                for (j, x) in d[b..].iter().enumerate() {
                    if j >= 5 {
                        break;
                    }
                    if *x {
                        st.add_success()
                    } else {
                        st.add_failure()
                    }
                }
                st.extend(&d[(b + 5).min(n)..].to_vec());
                call(|| st.ci(c))
            }
            3 => {
                let d = data(k);
                call(|| proportion::ci_true(c, &d))
            }
            4 => {
                let d = data(k);
                let head = d.len() / 3;
                // a plain batch chained with a filtered / flattened one: lower size hint = head only
                let st: proportion::Stats = d[..head].iter().copied().chain(crate::lazy::unsized_iter(&d[head..], 1 + k % 3)).collect();
                call(|| st.ci(c))
            }
            6 => {
                // measurements and a criterion: trial i is a success iff its measurement is below the threshold
                let d = data(k);
                let m: Vec<i32> = d.iter().enumerate().map(|(i, s)| if *s { (i % 7) as i32 } else { 10 + (i % 5) as i32 }).collect();
                call(|| proportion::ci_if(c, &m, |x| *x < 10))
            }
            7 => {
                let d = data(k);
                let m: Vec<f64> = d.iter().enumerate().map(|(i, s)| if *s { 0.25 * (i % 4) as f64 } else { 1.0 + (i % 3) as f64 }).collect();
                let h = n / 2;
                let mut st = proportion::Stats::default();
                st.extend_if(&m[..h].to_vec(), |x| *x < 1.0);
                if h < n {
                    if d[h] {
                        st.add_success()
                    } else {
                        st.add_failure()
                    }
                    st.extend_if(&m[h + 1..].to_vec(), |x| *x < 1.0);
                }
                call(|| st.ci(c))
            }
            _ => {
                // the sample counted in shards of 10 (some without any success), merged by value and in place
                let d = data(k);
                let mut st = proportion::Stats::default();
                for (j, sh) in d.chunks(10).enumerate() {
                    let part: proportion::Stats = sh.iter().copied().collect();
                    if j % 2 == 0 {
                        st = st + part;
                    } else if j % 4 == 1 {
                        st = part + st;
                    } else {
                        st += part;
                    }
                }
                call(|| st.ci(c))
            }
        };
        match out {
            Out::Ok(i) => Some(Obs::of64(&i)),
            _ => None, // an error does not cover
        }
    };
    if n % 2 == 0 {
        l.count("proportion: kinds interleaved at the same level");
        for k in 0..=n {
            for (li, level) in LEVELS.iter().enumerate() {
                for kind in [Kind::Lower, Kind::Two, Kind::Upper] {
                    let ti = KINDS.iter().position(|x| *x == kind).unwrap() * LEVELS.len() + li;
                    table[ti].2[k] = ask(kind, *level, k, l);
                }
            }
        }
    } else {
        for ti in 0..table.len() {
            let (kind, level) = (table[ti].0, table[ti].1);
            for k in 0..=n {
                table[ti].2[k] = ask(kind, level, k, l);
            }
        }
    }
    // p-grid over the region n p >= 10 and n (1-p) >= 10
    let plo = 10.0 / n as f64;
    let phi = 1.0 - plo;
    if !(plo < phi) {
        return;
    }
    let mut r = Rng::from(&[seed, 0xc12, n as u64]);
    let g = 1601;
    let jitter = r.f64();
    let mut grid: Vec<f64> = (0..g).map(|i| plo + (phi - plo) * ((i as f64 + jitter) / g as f64)).collect();
    let ngrid = grid.len();
    // interval end points ± 1e-12 (where coverage jumps), from the two-sided 0.95 row
    for o in table[2].2.iter().flatten() {
        for e in [o.lo, o.hi] {
            for d in [-1e-12, 1e-12] {
                let p = e + d;
                if p > plo && p < phi {
                    grid.push(p);
                }
            }
        }
    }
    let mut sums = vec![0.0f64; table.len()];
    for (gi, &p) in grid.iter().enumerate() {
        let pmf = binom_pmf(n, p);
        let maxp = pmf.iter().cloned().fold(0.0, f64::max);
        for (ti, (kind, level, row)) in table.iter().enumerate() {
            let mut cov = 0.0;
            for k in 0..=n {
                if let Some(o) = &row[k] {
                    if o.lo <= p && p <= o.hi {
                        cov += pmf[k];
                    }
                }
            }
            l.eval();
            if gi < ngrid {
                sums[ti] += cov;
            }
            let short = level - cov;
            l.max("proportion_shortfall_over_maxpmf", (short - SLACK_PT_ABS) / maxp);
            l.max("proportion_shortfall_abs", short);
            let slack = SLACK_PT_PMF * maxp + SLACK_PT_ABS;
            if short > slack {
                l.violation(
                    format!("proportion|coverage-below-nominal|{}|level={}", kind.name(), level),
                    format!("exact coverage of the {} {} proportion interval falls more than the documented slack below nominal", kind.name(), level),
                    json!({"what": "proportion", "n": n, "front": front}),
                    json!({"n": n, "front_end": FRONTS[front], "p": p, "kind": kind.name(), "level": level, "coverage": cov, "shortfall": short, "slack": slack, "max_pmf": maxp}),
                );
            }
        }
    }
    for (ti, (kind, level, _)) in table.iter().enumerate() {
        let avg = sums[ti] / ngrid as f64;
        l.eval();
        l.count("proportion average coverage judged");
        l.nontrivial(mix(&[n as u64, *kind as u64, level.to_bits(), 12 + front as u64 * 1000]));
        l.max("proportion_avg_coverage_abs_dev", (avg - level).abs());
        if n >= 25 && (avg - level).abs() > SLACK_AVG {
            l.violation(
                format!("proportion|average-coverage|{}|level={}|{}", kind.name(), level, if avg < *level { "below" } else { "above" }),
                format!("average exact coverage of the {} {} proportion interval differs from nominal by more than {}", kind.name(), level, SLACK_AVG),
                json!({"what": "proportion", "n": n, "front": front}),
                json!({"n": n, "front_end": FRONTS[front], "kind": kind.name(), "level": level, "average_coverage": avg, "p_range": [plo, phi], "grid_points": ngrid}),
            );
        }
        if l.wants_sample(&format!("proportion:{}", kind.name())) && *level == 0.95 {
            l.sample(&format!("proportion:{}", kind.name()), || json!({"n": n, "kind": kind.name(), "level": level, "average_exact_coverage": avg, "p_range": [plo, phi], "grid_points": grid.len(), "outcomes_k": n + 1}));
        }
    }
}

fn judge_quantile(n: usize, seed: u64, l: &mut Local) {
    let mut r = Rng::from(&[seed, 0xc12a, n as u64]);
    // distinct data whose values are their own ranks, in a seeded order: the data-taking entry point
    // must enclose exactly the order statistics the ranks designate
    let mut ranks_as_data: Vec<f64> = (0..n.min(4000)).map(|i| i as f64).collect();
    r.shuffle(&mut ranks_as_data);
    let g = 197;
    let jitter = r.f64();
    for gi in 0..g {
        let q = (gi as f64 + jitter) / g as f64;
        if !(q > 0.0 && q < 1.0) {
            continue;
        }
        let pmf = binom_pmf(n, q);
        let maxp = pmf.iter().cloned().fold(0.0, f64::max);
        // cumulative
        let mut cdf = vec![0.0; n + 2];
        for k in 0..=n {
            cdf[k + 1] = cdf[k] + pmf[k];
        }
        let prob = |a: usize, b: usize| -> f64 {
            // P(a <= B <= b)
            if a > b {
                0.0
            } else {
                cdf[b.min(n) + 1] - cdf[a.min(n + 1)]
            }
        };
        let mut order: Vec<(Kind, f64)> = vec![];
        if n % 2 == 0 {
            for level in LEVELS {
                for kind in [Kind::Upper, Kind::Two, Kind::Lower] {
                    order.push((kind, level));
                }
            }
        } else {
            for kind in KINDS {
                for level in LEVELS {
                    order.push((kind, level));
                }
            }
        }
        for (kind, level) in order {
            {
                let c = conf(kind, level);
                l.eval();
                let out = call(|| quantile::ci_indices(c, n, q));
                let iv = match out {
                    Out::Ok(i) => i,
                    _ => {
                        l.count("quantile inadmissible (skipped)");
                        continue;
                    }
                };
                // the same interval through the data (elements are their ranks)
                if n <= 4000 && gi % 4 == 1 {
                    l.eval();
                    l.count("quantile coverage through the data-taking entry point");
                    let via_data = call(|| quantile::ci(c, &ranks_as_data, q)).map(|i| match i {
                        Interval::TwoSided(a, b) => Interval::TwoSided(a as usize, b as usize),
                        Interval::UpperOneSided(a) => Interval::UpperOneSided(a as usize),
                        Interval::LowerOneSided(b) => Interval::LowerOneSided(b as usize),
                    });
                    let same = matches!(&via_data, Out::Ok(d) if *d == iv);
                    if !same {
                        l.violation(
                            format!("quantile|data-entry-point-covers-differently|{}", kind.name()),
                            "quantile::ci on data encloses other order statistics than the ranks of ci_indices: its coverage is not the one computed from the ranks".to_string(),
                            json!({"what": "quantile", "n": n}),
                            json!({"n": n, "q": q, "kind": kind.name(), "level": level, "ranks": format!("{:?}", iv), "through_data": via_data.describe()}),
                        );
                    }
                }
                let cov = match iv {
                    Interval::TwoSided(lo, hi) => prob(lo + 1, hi),
                    Interval::UpperOneSided(lo) => prob(lo + 1, n),
                    Interval::LowerOneSided(hi) => prob(0, hi),
                };
                l.count("quantile coverage judged");
                l.nontrivial(mix(&[n as u64, q.to_bits(), kind as u64, level.to_bits()]));
                let short = level - cov;
                l.max("quantile_shortfall_over_maxpmf", (short - SLACK_Q_ABS) / maxp);
                l.max("quantile_excess_over_maxpmf", (-short - SLACK_Q_ABS) / maxp);
                let slack = SLACK_Q_PMF * maxp + SLACK_Q_ABS;
                if short > slack {
                    l.violation(
                        format!("quantile|coverage-below-nominal|{}|level={}", kind.name(), level),
                        format!("distribution-free coverage of the {} {} quantile interval falls more than the documented slack below nominal", kind.name(), level),
                        json!({"what": "quantile", "n": n}),
                        json!({"n": n, "q": q, "kind": kind.name(), "level": level, "ranks": format!("{:?}", iv), "coverage": cov, "shortfall": short, "slack": slack, "max_pmf": maxp}),
                    );
                }
                // "stays within a documented slack of the nominal level": also from above
                let slack_above = SLACK_Q_ABOVE_PMF * maxp + SLACK_Q_ABS + (1.0 - level) * 0.0;
                if -short > slack_above && cov < 1.0 - 1e-9 && level + slack_above < 1.0 {
                    l.violation(
                        format!("quantile|coverage-above-nominal|{}|level={}", kind.name(), level),
                        format!("coverage of the {} {} quantile interval exceeds nominal by more than the documented slack (interval needlessly wide)", kind.name(), level),
                        json!({"what": "quantile", "n": n}),
                        json!({"n": n, "q": q, "kind": kind.name(), "level": level, "ranks": format!("{:?}", iv), "coverage": cov, "excess": -short, "slack": slack_above, "max_pmf": maxp}),
                    );
                }
                if l.wants_sample(&format!("quantile:{}", kind.name())) && level == 0.95 && gi == g / 2 {
                    l.sample(&format!("quantile:{}", kind.name()), || json!({"n": n, "q": q, "kind": kind.name(), "level": level, "ranks": format!("{:?}", iv), "exact_coverage": cov}));
                }
            }
        }
    }
}

pub fn run(run: &Arc<Run>) {
    let seed = run.cfg.seed;
    let ns: Vec<usize> = if run.cfg.quick() {
        vec![25, 30, 40, 50, 75, 100, 200, 400, 1000, 2000, 4000]
    } else {
        // ladder of ~60 values up to 5000
        let mut v: Vec<usize> = vec![21, 22, 23, 24, 25, 26, 27, 28, 29, 30, 32, 35, 37, 40, 45, 50, 55, 60, 64, 70, 75, 80, 90, 100, 101, 120, 128, 150, 175, 200, 250, 256, 300, 365, 400, 500, 600, 700, 800, 900, 1000, 1024, 1200, 1500, 1700, 2000, 2500, 3000, 3500, 4000, 4500, 5000];
        v.extend(21..=300usize);
        let mut r = Rng::from(&[seed, 0xc12b]);
        for _ in 0..8 {
            v.push(r.range(21, 3000) as usize);
        }
        v.sort();
        v.dedup();
        v
    };
    run.set_rule(format!(
        "deterministic (the seed only shifts the grids): n in {:?}; proportion: the real proportion::ci(conf, n, k) for every outcome 0 <= k <= n (an Err counts as not covering), and for a few further populations the same through ci_wilson_ratio(n, k/n), a Stats fed in batches, ci_true on data, ci_if with a criterion on measurements, Stats::extend_if in batches, a Stats collected from an iterator of unknown length, and shards merged with + / +=, exact coverage C(p) = sum_k Bin(k;n,p)[p in CI(k)] on a 1601-point p-grid over n p, n(1-p) >= 10 plus the interval end points ± 1e-12; \
         quantile: the real quantile::ci_indices on a 197-point q-grid, coverage P(l+1 <= B <= u), B ~ Bin(n,q) (one-sided: P(B >= l+1), P(B <= u)); levels {:?} x 3 kinds. \
         Documented slack: pointwise {}*max-pmf + {}, average |avg - L| <= {} (n >= 25), quantile {}*max-pmf + {} below (and {}*max-pmf above). distinct = distinct (n, kind, level[, q]).",
        ns, LEVELS, SLACK_PT_PMF, SLACK_PT_ABS, SLACK_AVG, SLACK_Q_PMF, SLACK_Q_ABS, SLACK_Q_ABOVE_PMF
    ));
    run.set_exhaustive(false);
    run.assume("binomial pmf oracle accurate to 1e-11 relative (self-test against mpmath at start)");
    if let Some(case) = &run.replay_case {
        let mut l = run.local();
        let n = case["n"].as_u64().unwrap() as usize;
        if case["what"] == "proportion" {
            judge_proportion(n, seed, case["front"].as_u64().unwrap_or(0) as usize, &mut l);
        } else {
            judge_quantile(n, seed, &mut l);
        }
        run.absorb(l);
        return;
    }
    // largest first for load balance; proportion and quantile items interleaved
    let mut items: Vec<(usize, usize)> = vec![];
    for &n in ns.iter().rev() {
        items.push((0, n));
        items.push((9, n));
    }
    // the other front-ends: a user's outcome reaches the interval through them just as well. The ratio
    // front-end on populations that are not round numbers (k/n*n need not give back k exactly).
    let ratio_ns: Vec<usize> = if run.cfg.quick() { vec![1337, 642, 321, 107, 57] } else { vec![2621, 1337, 999, 642, 321, 214, 107, 93, 57, 49] };
    let batch_ns: Vec<usize> = if run.cfg.quick() { vec![400, 200, 107, 75, 30] } else { vec![1000, 600, 400, 250, 200, 107, 75, 50, 30] };
    let data_ns: Vec<usize> = if run.cfg.quick() { vec![100, 40] } else { vec![300, 100, 64, 40] };
    let shard_ns: Vec<usize> = if run.cfg.quick() { vec![200, 100, 57] } else { vec![600, 400, 200, 100, 57, 33] };
    for (f, v) in [(1usize, &ratio_ns), (2, &batch_ns), (3, &data_ns), (4, &data_ns), (5, &shard_ns), (6, &data_ns), (7, &data_ns)] {
        for &n in v.iter() {
            items.push((f, n + (seed % 3) as usize));
        }
    }
    run.par(items.len() as u64, |i, l| {
        let (front, n) = items[i as usize];
        if front < 9 {
            judge_proportion(n, seed, front, l)
        } else {
            judge_quantile(n, seed, l)
        }
    });
    let fr: Vec<String> = FRONTS.iter().map(|f| format!("front-end:{}", f)).collect();
    let fr: Vec<&str> = fr.iter().map(|s| s.as_str()).collect();
    run.require(&fr);
    run.require(&["proportion average coverage judged", "quantile coverage judged", "proportion: kinds interleaved at the same level", "quantile coverage through the data-taking entry point"]);
    let _: Option<Value> = None;
}
