//! C05 — geometric / harmonic CIs are the back-transformed arithmetic CIs.
use crate::api::{call, conf, ErrFam, Obs, Out};
use crate::props::fl::{conv, Fl};
use sci_common::exact::{stats_f64, ulps_apart32, ulps_apart64};
use sci_common::gen::{level_grid, sample, Family, Kind, Spec, KINDS, POSITIVE_FAMILIES};
use sci_common::rt::{hash_f64s, jf, mix, Local, Rng, Run};
use serde::{Deserialize, Serialize};
use serde_json::{json, Value};
use stats_ci::error::CIError;
use stats_ci::mean::{Arithmetic, Geometric, Harmonic};
use stats_ci::StatisticsOps;
use std::sync::Arc;

#[derive(Clone, Debug, Serialize, Deserialize)]
pub struct Case {
    pub spec: Spec,
    pub confs: Vec<(Kind, f64)>,
    /// an extreme but strictly positive value injected at a position: (position, which)
    #[serde(default)]
    pub inject: Option<(usize, u8)>,
}

/// strictly positive extremes: smallest subnormal, a subnormal, MIN_POSITIVE, tiny normal, huge
fn extreme<F: Fl>(which: u8) -> F {
    match which {
        0 => F::min_positive_value() / F::of(if F::IS32 { 8388608.0 } else { 4503599627370496.0 }),
        1 => F::min_positive_value() / F::of(16.0),
        2 => F::min_positive_value(),
        3 => F::min_positive_value() * F::of(1024.0),
        _ => F::max_value() / F::of(1024.0),
    }
}

fn ulps<F: Fl>(a: f64, b: f64) -> u64 {
    if a == b {
        return 0;
    }
    if !a.is_finite() || !b.is_finite() {
        return u64::MAX;
    }
    if F::IS32 {
        ulps_apart32(a as f32, b as f32)
    } else {
        ulps_apart64(a, b)
    }
}

fn judge_relations<F: Fl>(c: &Case, l: &mut Local) {
    let mut x64 = sample(&c.spec);
    if c.spec.family == Family::Constant {
        // a two-decimal constant: its reciprocal and logarithm are not exact, so the sums of the
        // transformed values cancel only up to rounding
        let v = (1 + c.spec.seed % 999) as f64 / 100.0;
        let v = if F::IS32 { (v as f32) as f64 } else { v };
        x64.iter_mut().for_each(|t| *t = v);
        l.count("constant positive sample");
    }
    let mut x: Vec<F> = conv(&x64);
    let n = x.len();
    if let Some((pos, which)) = c.inject {
        let v: F = extreme::<F>(which);
        x[pos % n] = v;
        x64[pos % n] = v.f();
        l.count("strictly positive extreme injected (subnormal / MIN_POSITIVE / tiny / huge)");
    }
    let case = || serde_json::to_value(c).unwrap();
    // monitor-transformed data, in F
    let logs: Vec<F> = x.iter().map(|v| v.ln()).collect();
    let recs: Vec<F> = x.iter().map(|v| F::one() / *v).collect();
    let g = match Geometric::<F>::from_iter(&x) {
        Ok(g) => g,
        Err(e) => {
            l.violation(format!("Geometric::from_iter|{}|positive-data-rejected", F::TY), "strictly positive data rejected".to_string(), case(), json!({"error": format!("{:?}", e)}));
            return;
        }
    };
    // 1/x overflows for subnormal x: a non-finite reciprocal-space state is C11's regime
    let rec_finite = recs.iter().all(|v| v.is_finite() && (*v * *v).is_finite()) && recs.iter().fold(F::zero(), |a, v| a + *v * *v).is_finite();
    if !rec_finite {
        l.count("harmonic relations skipped: a reciprocal overflows (left to C11)");
    }
    let h = match Harmonic::<F>::from_iter(&x) {
        Ok(h) => h,
        Err(e) => {
            l.violation(format!("Harmonic::from_iter|{}|positive-data-rejected", F::TY), "strictly positive data rejected".to_string(), case(), json!({"error": format!("{:?}", e)}));
            return;
        }
    };
    let a_log = Arithmetic::<F>::from_iter(&logs).unwrap();
    let a_rec = Arithmetic::<F>::from_iter(&recs).unwrap();
    let a_x = Arithmetic::<F>::from_iter(&x).unwrap();
    // the accessors reached through the trait (what generic code calls; never executed before the coverage measurement of
    // round six) report what the inherent ones report, bit for bit
    {
        l.eval();
        l.count("trait-qualified accessors judged");
        fn via<F: Fl, S: StatisticsOps<F>>(s: &S) -> (u64, u64, usize) {
            (s.sample_mean().bits64(), s.sample_sem().bits64(), s.sample_count())
        }
        let same = via::<F, _>(&g) == (g.sample_mean().bits64(), g.sample_sem().bits64(), g.sample_count())
            && via::<F, _>(&h) == (h.sample_mean().bits64(), h.sample_sem().bits64(), h.sample_count())
            && via::<F, _>(&a_x) == (a_x.sample_mean().bits64(), a_x.sample_sem().bits64(), a_x.sample_count());
        if !same {
            l.violation(format!("StatisticsOps::sample_*|{}|differs-from-inherent", F::TY), "sample_mean / sample_sem / sample_count through the StatisticsOps trait differ from the inherent accessors".to_string(), case(), json!({"n": n}));
        }
    }
    // incremental style agrees with from_iter
    let mut g2 = Geometric::<F>::new();
    let mut h2 = Harmonic::<F>::new();
    for v in x.iter() {
        g2.append(*v).unwrap();
        h2.append(*v).unwrap();
    }
    l.eval();
    if g2 != g || (rec_finite && h2 != h) || g.sample_count() != n || h.sample_count() != n {
        l.violation(format!("Geometric/Harmonic|{}|append-vs-from_iter", F::TY), "append*n and from_iter build different states".to_string(), case(), json!({"geometric": [format!("{:?}", g), format!("{:?}", g2)], "harmonic": [format!("{:?}", h), format!("{:?}", h2)]}));
    }
    // states assembled from shards with `+=` and `+` describe the same sample (mean and standard error
    // within a few ulps of the single-pass state: merging rounds differently, nothing more)
    if n >= 4 && rec_finite {
        let (c1, c2) = (n / 3, n / 3 + (n - n / 3) / 2);
        let shards = [&x[..c1], &x[c1..c2], &x[c2..]];
        let mut gm_ = Geometric::<F>::new();
        let mut hm_ = Harmonic::<F>::new();
        let mut gp = Geometric::<F>::new();
        let mut hp = Harmonic::<F>::new();
        for sh in shards {
            let v = sh.to_vec();
            gm_ += Geometric::<F>::from_iter(&v).unwrap();
            hm_ += Harmonic::<F>::from_iter(&v).unwrap();
            gp = Geometric::<F>::from_iter(&v).unwrap() + gp;
            hp = hp + Harmonic::<F>::from_iter(&v).unwrap();
        }
        l.eval();
        l.count("sharded states judged");
        let close = |a: F, b: F| -> bool {
            let (a, b) = (a.f(), b.f());
            a == b || (a - b).abs() <= 64.0 * F::U * a.abs().max(b.abs()) || (a.is_nan() && b.is_nan())
        };
        // the standard error inherits the conditioning of the variance in the transformed space:
        // relative error ~ u * (1 + mean^2 / variance) of ln x resp. 1/x
        let kappa = |t: &Arithmetic<F>| -> f64 {
            let (m, v) = (t.sample_mean().f(), t.sample_variance().f());
            if v > 0.0 {
                1.0 + m * m / v
            } else {
                f64::INFINITY
            }
        };
        // (exp amplifies the relative error of the log-mean by |log-mean|)
        let amp = 1.0 + a_log.sample_mean().f().abs();
        let (kg, kh) = (kappa(&a_log) + amp, kappa(&a_rec));
        let close_g = |a: F, b: F| -> bool {
            let (a, b) = (a.f(), b.f());
            a == b || (a - b).abs() <= 64.0 * F::U * amp * a.abs().max(b.abs())
        };
        let sem_close = |a: F, b: F, k: f64| -> bool {
            let (a, b) = (a.f(), b.f());
            a == b || (a - b).abs() <= 64.0 * F::U * k * a.abs().max(b.abs()) || (a.is_nan() && b.is_nan())
        };
        for (name, ok, got, want) in [
            ("Geometric +=", gm_.sample_count() == n && close_g(gm_.sample_mean(), g.sample_mean()) && sem_close(gm_.sample_sem(), g.sample_sem(), kg), (gm_.sample_mean().f(), gm_.sample_sem().f()), (g.sample_mean().f(), g.sample_sem().f())),
            ("Geometric +", gp.sample_count() == n && close_g(gp.sample_mean(), g.sample_mean()) && sem_close(gp.sample_sem(), g.sample_sem(), kg), (gp.sample_mean().f(), gp.sample_sem().f()), (g.sample_mean().f(), g.sample_sem().f())),
            ("Harmonic +=", hm_.sample_count() == n && close(hm_.sample_mean(), h.sample_mean()) && sem_close(hm_.sample_sem(), h.sample_sem(), kh), (hm_.sample_mean().f(), hm_.sample_sem().f()), (h.sample_mean().f(), h.sample_sem().f())),
            ("Harmonic +", hp.sample_count() == n && close(hp.sample_mean(), h.sample_mean()) && sem_close(hp.sample_sem(), h.sample_sem(), kh), (hp.sample_mean().f(), hp.sample_sem().f()), (h.sample_mean().f(), h.sample_sem().f())),
        ] {
            if !ok {
                l.violation(format!("{}|{}|sharded-state-differs", name, F::TY), format!("a state assembled from three shards with `{}` does not describe the same sample as the single-pass state", name), case(), json!({"(mean, sem) merged": [got.0, got.1], "(mean, sem) single pass": [want.0, want.1], "n": n}));
            }
        }
    }
    // sample means: G = exp(mean ln x), H = 1/mean(1/x); H <= G <= A
    let (gm, hm, am) = (g.sample_mean().f(), h.sample_mean().f(), a_x.sample_mean().f());
    let want_g = a_log.sample_mean().exp().f();
    let want_h = (F::one() / a_rec.sample_mean()).f();
    l.eval();
    let (ug, uh) = (ulps::<F>(gm, want_g), ulps::<F>(hm, want_h));
    l.max("sample_mean_ulps_off_transform", ug.max(uh) as f64);
    let uh = if rec_finite { uh } else { 0 };
    if ug > 4 || uh > 4 {
        l.violation(format!("sample_mean|{}|not-back-transform|{}", F::TY, if ug > 4 { "Geometric" } else { "Harmonic" }), "sample_mean is not exp(mean of logs) / 1/(mean of reciprocals)".to_string(), case(), json!({"geometric": gm, "exp(mean ln x)": want_g, "harmonic": hm, "1/mean(1/x)": want_h}));
    }
    // against the exact mean of the transformed data (budget: compensated sum + one exp / division)
    {
        let tl: Vec<f64> = logs.iter().map(|v| v.f()).collect();
        let st = stats_f64(&tl);
        let abs_tol = 9.0 * F::U * st.a_f / n as f64 + 4.0 * F::U * st.mean_f.abs() + 4.0 * F::U;
        let err = (gm.ln() - st.mean_f).abs();
        l.max("geometric_logmean_err_over_budget", err / abs_tol);
        if !(err <= abs_tol) && gm.is_finite() && gm > 0.0 {
            l.violation(format!("Geometric::sample_mean|{}|off-exact-log-mean", F::TY), "ln(sample_mean) differs from the exact mean of the logarithms beyond rounding".to_string(), case(), json!({"ln(sample_mean)": gm.ln(), "exact_mean_of_logs": st.mean_f, "tolerance": abs_tol}));
        }
        let tr: Vec<f64> = if rec_finite { recs.iter().map(|v| v.f()).collect() } else { vec![1.0, 2.0] };
        let sr = stats_f64(&tr);
        let rel_tol = 9.0 * F::U * sr.a_f / (n as f64 * sr.mean_f.abs()) + 8.0 * F::U;
        let errh = (1.0 / hm - sr.mean_f).abs() / sr.mean_f.abs();
        l.max("harmonic_recmean_err_over_budget", errh / rel_tol);
        if !(errh <= rel_tol) && hm.is_finite() && rec_finite {
            l.violation(format!("Harmonic::sample_mean|{}|off-exact-reciprocal-mean", F::TY), "1/sample_mean differs from the exact mean of the reciprocals beyond rounding".to_string(), case(), json!({"1/sample_mean": 1.0 / hm, "exact_mean_of_reciprocals": sr.mean_f, "rel_tolerance": rel_tol}));
        }
    }
    l.eval();
    let slack = |v: f64| 8.0 * F::U * 2.0 * v.abs() + 9.0 * F::U * v.abs() * (1.0 + x64.iter().fold(0.0f64, |m, t| m.max(t.ln().abs())));
    if (rec_finite && hm > gm + slack(gm)) || gm > am + slack(am) {
        l.violation(format!("means|{}|H<=G<=A-violated", F::TY), "harmonic <= geometric <= arithmetic does not hold for the reported sample means".to_string(), case(), json!({"harmonic": hm, "geometric": gm, "arithmetic": am}));
    }
    // standard errors: G * se(ln x), H^2 * se(1/x)
    if n >= 2 {
        let se_log = a_log.sample_sem();
        let se_rec = a_rec.sample_sem();
        let want_gs = (g.sample_mean() * se_log).f();
        let want_hs = (h.sample_mean() * h.sample_mean() * se_rec).f();
        let (gs, hs) = (g.sample_sem().f(), h.sample_sem().f());
        l.eval();
        // the documented transform is finite, the reported standard error is not (or vice versa)
        for (name, got, want) in [("Geometric", gs, want_gs), ("Harmonic", hs, want_hs)] {
            if got.is_finite() != want.is_finite() && !(got.is_nan() && want.is_nan()) {
                l.violation(format!("sample_sem|{}|finiteness-differs-from-documented-transform|{}", F::TY, name), "sample_sem is finite where the documented transform of the arithmetic standard error is not, or the reverse".to_string(), case(), json!({"which": name, "sample_sem": jf(got), "documented_transform": jf(want)}));
            }
        }
        if gs.is_finite() && want_gs.is_finite() && hs.is_finite() && want_hs.is_finite() {
            let (u1, u2) = (ulps::<F>(gs, want_gs), ulps::<F>(hs, want_hs));
            l.max("sample_sem_ulps_off_transform", u1.max(u2) as f64);
            l.count("sample_sem judged");
            if u1 > 8 || u2 > 8 {
                l.violation(format!("sample_sem|{}|not-documented-transform|{}", F::TY, if u1 > 8 { "Geometric" } else { "Harmonic" }), "sample_sem is not G*se(ln x) / H^2*se(1/x) of the arithmetic standard error in the transformed space".to_string(), case(), json!({"geometric_sem": gs, "G*se(ln x)": want_gs, "harmonic_sem": hs, "H^2*se(1/x)": want_hs}));
            }
        } else {
            l.count("sample_sem skipped (non-finite: degenerate variance, left to C11)");
        }
    }
    // intervals
    for &(kind, level) in c.confs.iter() {
        let cf = conf(kind, level);
        let inp = || json!({"n": n, "kind": kind.name(), "level": level});
        // geometric
        let ag = call(|| a_log.ci_mean(cf)).map(|i| F::obs(&i));
        let gg = call(|| g.ci_mean(cf)).map(|i| F::obs(&i));
        // the one-shot entry point, in rotation: inherent on a Vec; on user-defined views whose iterators announce 0 /
        // half of their length / more slots than values; trait-qualified (what generic code calls)
        let how = (n + kind as usize + (level.to_bits() >> 40) as usize) % 6;
        let one_shot_g = |how: usize| match how {
            0 => call(|| Geometric::<F>::ci(cf, &x)).map(|i| F::obs(&i)),
            1 => call(|| Geometric::<F>::ci(cf, &crate::lazy::Lazy(x.clone()))).map(|i| F::obs(&i)),
            2 => call(|| Geometric::<F>::ci(cf, &crate::lazy::HeadKnown(x.clone(), n / 2))).map(|i| F::obs(&i)),
            3 => call(|| Geometric::<F>::ci(cf, &crate::lazy::Sparse::of(&x, 2))).map(|i| F::obs(&i)),
            4 => call(|| <Geometric<F> as stats_ci::MeanCI<F>>::ci(cf, &crate::lazy::Lazy(x.clone()))).map(|i| F::obs(&i)),
            _ => call(|| <Geometric<F> as StatisticsOps<F>>::ci(cf, &x)).map(|i| F::obs(&i)),
        };
        let gg1 = one_shot_g(how);
        l.count(["one-shot ci: inherent, Vec", "one-shot ci: view announcing length 0", "one-shot ci: view announcing half its length", "one-shot ci: column with holes", "one-shot ci: MeanCI::ci on a view", "one-shot ci: StatisticsOps::ci"][how]);
        l.eval();
        match (&ag, &gg) {
            (Out::Ok(a), Out::Ok(o)) if !a.has_nan() => {
                let e = |v: f64| F::of(v).exp().f();
                let (wl, wh) = (if kind == Kind::Lower { f64::NEG_INFINITY } else { e(a.lo) }, if kind == Kind::Upper { f64::INFINITY } else { e(a.hi) });
                let (ul, uh) = (ulps::<F>(o.lo, wl), ulps::<F>(o.hi, wh));
                l.max("geometric_bound_ulps_off_transform", ul.max(uh) as f64);
                l.count("geometric interval judged");
                l.nontrivial(mix(&[hash_f64s(&x64[..n.min(32)]), n as u64, F::IS32 as u64, kind as u64, level.to_bits(), 5]));
                if o.kind != kind || ul > 4 || uh > 4 {
                    l.violation(format!("Geometric::ci_mean|{}|{}|not-exp-of-log-space-CI", F::TY, kind.name()), "the geometric interval is not exp of the arithmetic interval of the logarithms".to_string(), case(), json!({"input": inp(), "observed": o.json(), "expected": [jf(wl), jf(wh)], "log_space_CI": a.json()}));
                }
                if !matches!(&gg1, Out::Ok(p) if p.bits() == o.bits()) {
                    l.violation(format!("Geometric::ci|{}|differs-from-ci_mean", F::TY), "one-shot Geometric::ci differs from from_iter + ci_mean".to_string(), case(), json!({"input": inp(), "ci": gg1.describe(), "ci_mean": o.json()}));
                }
            }
            (Out::Ok(a), _) if a.has_nan() => l.count("log-space CI is NaN (degenerate variance, left to C11)"),
            (x1, x2) => {
                if x1.class() != x2.class() {
                    l.violation(format!("Geometric::ci_mean|{}|outcome-differs-from-log-space", F::TY), "Geometric::ci_mean and the arithmetic CI of the logarithms disagree on the outcome class".to_string(), case(), json!({"input": inp(), "geometric": x2.describe(), "log_space": x1.describe()}));
                }
            }
        }
        // harmonic: reciprocal-space CI at the flipped kind, ends exchanged
        if !rec_finite {
            continue;
        }
        let ar = call(|| a_rec.ci_mean(conf(kind.flipped(), level))).map(|i| F::obs(&i));
        let hh = call(|| h.ci_mean(cf)).map(|i| F::obs(&i));
        let hh1 = match how {
            0 => call(|| Harmonic::<F>::ci(cf, &x)).map(|i| F::obs(&i)),
            1 => call(|| Harmonic::<F>::ci(cf, &crate::lazy::Lazy(x.clone()))).map(|i| F::obs(&i)),
            2 => call(|| Harmonic::<F>::ci(cf, &crate::lazy::HeadKnown(x.clone(), n / 2))).map(|i| F::obs(&i)),
            3 => call(|| Harmonic::<F>::ci(cf, &crate::lazy::Sparse::of(&x, 2))).map(|i| F::obs(&i)),
            4 => call(|| <Harmonic<F> as stats_ci::MeanCI<F>>::ci(cf, &crate::lazy::Lazy(x.clone()))).map(|i| F::obs(&i)),
            _ => call(|| <Harmonic<F> as StatisticsOps<F>>::ci(cf, &x)).map(|i| F::obs(&i)),
        };
        l.eval();
        match (&ar, &hh) {
            (Out::Ok(a), Out::Ok(o)) if !a.has_nan() => {
                // the reciprocal-space bound(s) used must be strictly positive (the property's proviso)
                let used_pos = match kind {
                    Kind::Two => a.lo > 0.0,
                    Kind::Upper => a.hi > 0.0, // arithmetic Lower: (-inf, hi]
                    Kind::Lower => a.lo > 0.0, // arithmetic Upper: [lo, inf)
                };
                if !used_pos {
                    l.count("harmonic: reciprocal-space interval straddles 0 (proviso; left to C11)");
                } else {
                    let inv = |v: f64| (F::one() / F::of(v)).f();
                    let (wl, wh) = (if kind == Kind::Lower { f64::NEG_INFINITY } else { inv(a.hi) }, if kind == Kind::Upper { f64::INFINITY } else { inv(a.lo) });
                    let (ul, uh) = (ulps::<F>(o.lo, wl), ulps::<F>(o.hi, wh));
                    l.max("harmonic_bound_ulps_off_transform", ul.max(uh) as f64);
                    l.count("harmonic interval judged");
                    l.nontrivial(mix(&[hash_f64s(&x64[..n.min(32)]), n as u64, F::IS32 as u64, kind as u64, level.to_bits(), 55]));
                    if o.kind != kind || ul > 4 || uh > 4 {
                        l.violation(format!("Harmonic::ci_mean|{}|{}|not-reciprocal-of-flipped-CI", F::TY, kind.name()), "the harmonic interval is not the reciprocal of the arithmetic interval of the reciprocals (flipped kind, ends exchanged)".to_string(), case(), json!({"input": inp(), "observed": o.json(), "expected": [jf(wl), jf(wh)], "reciprocal_space_CI(flipped kind)": a.json()}));
                    }
                    if !matches!(&hh1, Out::Ok(p) if p.bits() == o.bits()) {
                        l.violation(format!("Harmonic::ci|{}|differs-from-ci_mean", F::TY), "one-shot Harmonic::ci differs from from_iter + ci_mean".to_string(), case(), json!({"input": inp(), "ci": hh1.describe(), "ci_mean": o.json()}));
                    }
                }
            }
            (Out::Ok(a), _) if a.has_nan() => l.count("reciprocal-space CI is NaN (degenerate variance, left to C11)"),
            (Out::Ok(a), other) => {
                let used_pos = match kind {
                    Kind::Two => a.lo > 0.0,
                    Kind::Upper => a.hi > 0.0,
                    Kind::Lower => a.lo > 0.0,
                };
                if used_pos {
                    // every reciprocal-space bound that is used is strictly positive: the reciprocal exists
                    l.violation(format!("Harmonic::ci_mean|{}|{}|no-interval-although-reciprocal-space-CI-is-positive|{}", F::TY, kind.name(), other.class()), "Harmonic::ci_mean gives no interval although the arithmetic interval of the reciprocals (flipped kind) is strictly positive".to_string(), case(), json!({"input": inp(), "harmonic": other.describe(), "reciprocal_space_CI(flipped kind)": a.json()}));
                } else {
                    l.count("harmonic: no interval although the reciprocal-space CI exists (straddling; left to C11)");
                }
            }
            (x1, x2) => {
                if x1.class() != x2.class() {
                    l.violation(format!("Harmonic::ci_mean|{}|outcome-differs-from-reciprocal-space", F::TY), "Harmonic::ci_mean and the arithmetic CI of the reciprocals disagree on the outcome class".to_string(), case(), json!({"input": inp(), "harmonic": x2.describe(), "reciprocal_space": x1.describe()}));
                }
            }
        }
        let cls = format!("{}:{}", F::TY, kind.name());
        if l.wants_sample(&cls) {
            l.sample(&cls, || json!({"spec": c.spec, "first_values": &x64[..n.min(5)], "kind": kind.name(), "level": level, "geometric": gg.describe(), "log_space_CI": ag.describe(), "harmonic": hh.describe(), "reciprocal_space_CI(flipped)": ar.describe()}));
        }
    }
}

// ------------------------------------------------------------------------------ rejection

#[derive(Clone, Debug, Serialize, Deserialize)]
pub struct RejCase {
    pub spec: Spec,
    pub pos: usize,
    pub bad: u8,
}

fn bad_value<F: Fl>(k: u8) -> F {
    match k {
        0 => F::zero(),
        1 => -F::zero(),
        2 => -F::one(),
        3 => -F::min_positive_value(),
        _ => F::neg_infinity(),
    }
}

trait PosState<F: Fl>: Sized + PartialEq + std::fmt::Debug + Clone {
    const NAME: &'static str;
    fn new_() -> Self;
    fn append_(&mut self, x: F) -> Result<(), CIError>;
    fn extend_(&mut self, d: &Vec<F>) -> Result<(), CIError>;
    fn from_iter_(d: &Vec<F>) -> Result<Self, CIError>;
    fn ci_(c: stats_ci::Confidence, d: &Vec<F>) -> Result<stats_ci::Interval<F>, CIError>;
    fn queries(&self) -> (usize, u64, u64, String);
}
macro_rules! impl_pos {
    ($t:ident, $name:expr) => {
        impl<F: Fl> PosState<F> for $t<F> {
            const NAME: &'static str = $name;
            fn new_() -> Self {
                <$t<F>>::new()
            }
            fn append_(&mut self, x: F) -> Result<(), CIError> {
                self.append(x)
            }
            fn extend_(&mut self, d: &Vec<F>) -> Result<(), CIError> {
                StatisticsOps::extend(self, d)
            }
            fn from_iter_(d: &Vec<F>) -> Result<Self, CIError> {
                <$t<F> as StatisticsOps<F>>::from_iter(d)
            }
            fn ci_(c: stats_ci::Confidence, d: &Vec<F>) -> Result<stats_ci::Interval<F>, CIError> {
                <$t<F>>::ci(c, d)
            }
            fn queries(&self) -> (usize, u64, u64, String) {
                let ci = if self.sample_count() >= 2 { format!("{:?}", self.ci_mean(stats_ci::Confidence::TwoSided(0.9)).map_err(|e| format!("{:?}", e))) } else { String::new() };
                let sem = if self.sample_count() >= 2 { self.sample_sem().bits64() } else { 0 };
                (self.sample_count(), if self.sample_count() >= 1 { self.sample_mean().bits64() } else { 0 }, sem, ci)
            }
        }
    };
}
impl_pos!(Geometric, "Geometric");
impl_pos!(Harmonic, "Harmonic");

fn judge_rejection<F: Fl, S: PosState<F>>(rc: &RejCase, l: &mut Local) {
    let x: Vec<F> = conv(&sample(&rc.spec));
    let n = x.len();
    let i = rc.pos.min(n.saturating_sub(1));
    let bad: F = bad_value::<F>(rc.bad);
    let mut data = x.clone();
    data[i] = bad;
    let case = || serde_json::to_value(rc).unwrap();
    let cls = match rc.bad {
        0 => "0",
        1 => "-0",
        2 => "negative",
        3 => "-min_positive",
        _ => "-inf",
    };
    l.count_s(format!("rejection:{}:{}", S::NAME, cls));
    l.nontrivial(mix(&[hash_f64s(&x.iter().take(16).map(|v| v.f()).collect::<Vec<_>>()), n as u64, i as u64, rc.bad as u64, F::IS32 as u64, sci_common::rt::hash_str(S::NAME)]));
    let carries = |e: &CIError| matches!(e, CIError::NonPositiveValue(v) if *v == bad.f());
    // (1) append on the accumulated prefix: error carrying the value, state untouched
    let mut st = S::new_();
    for v in &x[..i] {
        st.append_(*v).unwrap();
    }
    let before = st.clone();
    let (dbg_before, q_before) = (format!("{:?}", st), st.queries());
    let r = st.append_(bad);
    l.eval();
    match &r {
        Err(e) if carries(e) => {}
        other => {
            l.violation(format!("{}::append|{}|non-positive-{}|not-rejected-with-value", S::NAME, F::TY, cls), format!("append({}) is not rejected with NonPositiveValue carrying the value", cls), case(), json!({"value": jf(bad.f()), "result": format!("{:?}", other)}));
        }
    }
    l.eval();
    if st != before || format!("{:?}", st) != dbg_before || st.queries() != q_before {
        l.violation(format!("{}::append|{}|state-changed-by-rejected-value|{}", S::NAME, F::TY, cls), "a rejected observation changed the accumulated state".to_string(), case(), json!({"before": dbg_before, "after": format!("{:?}", st)}));
    }
    // (2) extend: fails with the same error, exactly the prefix accumulated
    let mut se = S::new_();
    let re = se.extend_(&data);
    let mut prefix = S::new_();
    for v in &x[..i] {
        prefix.append_(*v).unwrap();
    }
    l.eval();
    if !matches!(&re, Err(e) if carries(e)) {
        l.violation(format!("{}::extend|{}|non-positive-{}|not-rejected-with-value", S::NAME, F::TY, cls), "extend over data containing a non-positive value does not fail with NonPositiveValue(value)".to_string(), case(), json!({"position": i, "value": jf(bad.f()), "result": format!("{:?}", re)}));
    }
    if se != prefix || format!("{:?}", se) != format!("{:?}", prefix) {
        l.violation(format!("{}::extend|{}|state-not-prefix|{}", S::NAME, F::TY, cls), "after a failed extend the state is not exactly the prefix before the bad value".to_string(), case(), json!({"position": i, "state": format!("{:?}", se), "prefix_state": format!("{:?}", prefix)}));
    }
    // (3) from_iter and ci fail with the same error
    l.eval();
    let rf = S::from_iter_(&data);
    if !matches!(&rf, Err(e) if carries(e)) {
        l.violation(format!("{}::from_iter|{}|non-positive-{}|not-rejected-with-value", S::NAME, F::TY, cls), "from_iter over data containing a non-positive value does not fail with NonPositiveValue(value)".to_string(), case(), json!({"position": i, "value": jf(bad.f()), "result": format!("{:?}", rf.map(|_| "Ok"))}));
    }
    l.eval();
    let rci = S::ci_(stats_ci::Confidence::TwoSided(0.95), &data);
    if !matches!(&rci, Err(e) if carries(e)) {
        l.violation(format!("{}::ci|{}|non-positive-{}|not-rejected-with-value", S::NAME, F::TY, cls), "ci over data containing a non-positive value does not fail with NonPositiveValue(value)".to_string(), case(), json!({"position": i, "value": jf(bad.f()), "result": format!("{:?}", rci)}));
    }
    if l.wants_sample(&format!("rejection:{}:{}", S::NAME, cls)) {
        l.sample(&format!("rejection:{}:{}", S::NAME, cls), || json!({"case": rc, "append": format!("{:?}", r), "extend": format!("{:?}", re), "state_after_failed_extend": format!("{:?}", se)}));
    }
}

fn make_case(seed: u64, i: u64, levels: &[f64]) -> Case {
    let mut r = Rng::from(&[seed, 0xc05, i]);
    let f32 = i % 2 == 1;
    let family: Family = POSITIVE_FAMILIES[((i / 2) % 5) as usize];
    let mut n = sci_common::gen::pick_len(&mut r, i / 10, &[20_000]);
    // one case in eight is a constant sample of a non-dyadic value (zero variance in the transformed
    // space up to cancellation: the standard errors must come out as 0, not NaN)
    let family = if i % 16 >= 14 { Family::Constant } else { family };
    if family == Family::Constant {
        n = r.range(2, 40) as usize;
    }
    let mut confs = vec![];
    for kind in KINDS {
        confs.push((kind, *r.pick(&[0.01, 0.1, 0.25, 0.3])));
        confs.push((kind, *r.pick(levels)));
        confs.push((kind, *r.pick(levels)));
    }
    let inject = if i % 12 == 7 { Some((r.below(n as u64) as usize, r.below(5) as u8)) } else { None };
    Case { spec: Spec { family, n, seed: r.next_u64(), f32, positive: true }, confs, inject }
}

pub fn run(run: &Arc<Run>) {
    let seed = run.cfg.seed;
    let levels = level_grid(seed, 8);
    run.set_rule(
        "strictly positive samples (wide dynamic range 2^±60 (f32: ±20), narrow, uniform, small ints, two-valued; f32/f64; n = 2..9, 10..200, 10^3, 10^4, 2*10^4) x 9 confidences (incl. levels < 1/2): geometric = exp(arithmetic CI of monitor-computed logs), harmonic = reciprocal of the arithmetic CI of reciprocals at the flipped kind with ends exchanged (only when the reciprocal-space bound used is > 0), \
         sample means vs back-transforms and vs exact BigInt means of the transformed data, H <= G <= A, standard-error transforms; rejection: each of {0, -0, -1, -min_positive, -inf} at every position of samples of length 1..8 and 3 positions of longer ones, for append / extend / from_iter / ci, with state preservation. \
         distinct = (data, type, confidence) resp. (data, position, bad value, entry) fingerprints.",
    );
    if let Some(case) = &run.replay_case {
        let mut l = run.local();
        if case.get("pos").is_some() {
            let rc: RejCase = serde_json::from_value(case.clone()).expect("case");
            if rc.spec.f32 {
                judge_rejection::<f32, Geometric<f32>>(&rc, &mut l);
                judge_rejection::<f32, Harmonic<f32>>(&rc, &mut l);
            } else {
                judge_rejection::<f64, Geometric<f64>>(&rc, &mut l);
                judge_rejection::<f64, Harmonic<f64>>(&rc, &mut l);
            }
        } else {
            let c: Case = serde_json::from_value(case.clone()).expect("case");
            if c.spec.f32 {
                judge_relations::<f32>(&c, &mut l)
            } else {
                judge_relations::<f64>(&c, &mut l)
            }
        }
        run.absorb(l);
        return;
    }
    let n = run.cfg.by(20_000u64, 500_000);
    run.par(n, |i, l| {
        let c = make_case(seed, i, &levels);
        if c.spec.f32 {
            judge_relations::<f32>(&c, l)
        } else {
            judge_relations::<f64>(&c, l)
        }
    });
    let nr = run.cfg.by(6_000u64, 200_000);
    run.par(nr, |i, l| {
        let mut r = Rng::from(&[seed, 0xc05b, i]);
        let f32 = i % 2 == 1;
        let n = if i % 7 == 6 { r.range(9, 300) as usize } else { 1 + (i / 2 % 8) as usize };
        let spec = Spec { family: POSITIVE_FAMILIES[(i / 16 % 5) as usize], n, seed: r.next_u64(), f32, positive: true };
        let positions: Vec<usize> = if n <= 8 { (0..n).collect() } else { vec![0, n / 2, n - 1] };
        for pos in positions {
            for bad in 0..5u8 {
                let rc = RejCase { spec: spec.clone(), pos, bad };
                if f32 {
                    judge_rejection::<f32, Geometric<f32>>(&rc, l);
                    judge_rejection::<f32, Harmonic<f32>>(&rc, l);
                } else {
                    judge_rejection::<f64, Geometric<f64>>(&rc, l);
                    judge_rejection::<f64, Harmonic<f64>>(&rc, l);
                }
            }
        }
    });
    let mut req: Vec<String> = vec!["strictly positive extreme injected (subnormal / MIN_POSITIVE / tiny / huge)".into(), "geometric interval judged".into(), "harmonic interval judged".into(), "sample_sem judged".into(), "constant positive sample".into(), "sharded states judged".into(), "harmonic: reciprocal-space interval straddles 0 (proviso; left to C11)".into()];
    for s in ["Geometric", "Harmonic"] {
        for c in ["0", "-0", "negative", "-min_positive", "-inf"] {
            req.push(format!("rejection:{}:{}", s, c));
        }
    }
    let r: Vec<&str> = req.iter().map(|s| s.as_str()).collect();
    run.require(&r);
    let _: (Option<ErrFam>, Option<Obs>, Option<Value>) = (None, None, None);
}
