//! C09 — incremental, chunked, merged and parallel accumulation equal the batch result.
//! (i) random API programs with a shadow multiset, (ii) exhaustive merge trees, (iii) a threaded
//! reduce with an event log checked offline (exactly-once / conservation), (iv) rayon reduce.
use crate::api::{call, conf, Obs, Out};
use crate::props::budget::{budget, expected_mean_ci, in_domain};
use crate::props::c04::{unpaired_expected, unpaired_ref};
use sci_common::exact::stats_f64;
use sci_common::gen::{Kind, KINDS};
use sci_common::rt::{hash_str, jf, mix, Local, Rng, Run};
use serde::{Deserialize, Serialize};
use serde_json::{json, Value};
use stats_ci::comparison::{Paired, Unpaired};
use stats_ci::mean::{Arithmetic, Geometric, Harmonic};
use stats_ci::{proportion, quantile, StatisticsOps};
use std::collections::HashSet;
use std::fmt::Debug;
use std::sync::atomic::{AtomicU64, Ordering};
use std::sync::{Arc, Mutex};

/// one observation, interpreted per state type
#[derive(Clone, Copy, Debug, Serialize, Deserialize, PartialEq)]
pub struct Ob {
    pub x: f64,
    pub y: f64,
    pub flag: bool,
}

/// what a query observes
#[derive(Clone, Debug, PartialEq)]
pub struct Q {
    pub count: usize,
    pub count2: usize,
    pub vals: Vec<u64>, // bit patterns of mean / sem-like accessors (as f64)
    pub ci: Vec<String>,
    pub ci_obs: Vec<Option<Obs>>,
}

const QCONFS: [(Kind, f64); 3] = [(Kind::Two, 0.95), (Kind::Upper, 0.75), (Kind::Lower, 0.3)];

pub trait Acc: Clone + PartialEq + Debug + Send + 'static {
    const NAME: &'static str;
    /// unit roundoff of the element type
    const U: f64;
    fn new_() -> Self;
    fn append_(&mut self, o: Ob);
    fn extend_(&mut self, os: &[Ob]);
    fn from_iter_(os: &[Ob]) -> Self;
    fn add_(self, o: Self) -> Self;
    fn add_assign_(&mut self, o: Self);
    fn query(&self) -> Q;
    /// the transformed observation vectors the statistics are about (f64-widened)
    fn transformed(os: &[Ob]) -> (Vec<f64>, Vec<f64>);
    /// states of this type are exact component-wise sums (proportion / quantile)
    const COUNTS_ONLY: bool = false;
    /// relative (true) or absolute (false) comparison of value accessors against the budget
    const LOG_SPACE: bool = false;
    const RECIPROCAL: bool = false;
    const UNPAIRED: bool = false;
}

fn q_of<F: crate::props::fl::Fl>(count: usize, count2: usize, vals: Vec<F>, cis: Vec<Out<Obs>>) -> Q {
    Q { count, count2, vals: vals.iter().map(|v| v.f().to_bits()).collect(), ci: cis.iter().map(|c| c.describe()).collect(), ci_obs: cis.iter().map(|c| if let Out::Ok(o) = c { Some(*o) } else { None }).collect() }
}

macro_rules! impl_mean_acc {
    ($ty:ident, $f:ty, $name:expr, $u:expr, $log:expr, $rec:expr, $tx:expr, $input:expr) => {
        impl Acc for $ty<$f> {
            const NAME: &'static str = $name;
            const U: f64 = $u;
            const LOG_SPACE: bool = $log;
            const RECIPROCAL: bool = $rec;
            fn new_() -> Self {
                <$ty<$f>>::new()
            }
            fn append_(&mut self, o: Ob) {
                StatisticsOps::append(self, $input(o)).unwrap();
            }
            fn extend_(&mut self, os: &[Ob]) {
                let v: Vec<$f> = os.iter().map(|o| $input(*o)).collect();
                // the container alternates with the chunk length: Vec, a view of unknown length, a view
                // that announces only half of its elements
                with_view!(v.len(), v, |d| StatisticsOps::extend(self, d).unwrap());
            }
            fn from_iter_(os: &[Ob]) -> Self {
                let v: Vec<$f> = os.iter().map(|o| $input(*o)).collect();
                with_view!(v.len() + 1, v, |d| <$ty<$f> as StatisticsOps<$f>>::from_iter(d).unwrap())
            }
            fn add_(self, o: Self) -> Self {
                self + o
            }
            fn add_assign_(&mut self, o: Self) {
                *self += o;
            }
            fn query(&self) -> Q {
                let n = self.sample_count();
                let vals: Vec<$f> = if n >= 2 { vec![self.sample_mean(), self.sample_sem()] } else if n == 1 { vec![self.sample_mean()] } else { vec![] };
                let cis = QCONFS.iter().map(|(k, l)| call(|| self.ci_mean(conf(*k, *l))).map(|i| <$f as crate::props::fl::Fl>::obs(&i))).collect();
                q_of::<$f>(n, 0, vals, cis)
            }
            fn transformed(os: &[Ob]) -> (Vec<f64>, Vec<f64>) {
                (os.iter().map(|o| ($tx($input(*o))) as f64).collect(), vec![])
            }
        }
    };
}
const U64_: f64 = 1.1102230246251565e-16;
const U32_: f64 = 5.960464477539063e-8;
impl_mean_acc!(Arithmetic, f64, "Arithmetic<f64>", U64_, false, false, |v: f64| v, |o: Ob| o.x);
impl_mean_acc!(Arithmetic, f32, "Arithmetic<f32>", U32_, false, false, |v: f32| v, |o: Ob| o.x as f32);
impl_mean_acc!(Geometric, f64, "Geometric<f64>", U64_, true, false, |v: f64| v.ln(), |o: Ob| o.x.abs() + 0.25);
impl_mean_acc!(Geometric, f32, "Geometric<f32>", U32_, true, false, |v: f32| v.ln(), |o: Ob| (o.x.abs() + 0.25) as f32);
impl_mean_acc!(Harmonic, f64, "Harmonic<f64>", U64_, false, true, |v: f64| 1.0 / v, |o: Ob| o.x.abs() + 0.25);
impl_mean_acc!(Harmonic, f32, "Harmonic<f32>", U32_, false, true, |v: f32| 1.0 / v, |o: Ob| (o.x.abs() + 0.25) as f32);

impl Acc for Paired<f64> {
    const NAME: &'static str = "Paired<f64>";
    const U: f64 = U64_;
    fn new_() -> Self {
        Paired::default()
    }
    fn append_(&mut self, o: Ob) {
        self.append_pair(o.x, o.y).unwrap();
    }
    fn extend_(&mut self, os: &[Ob]) {
        let a: Vec<f64> = os.iter().map(|o| o.x).collect();
        let b: Vec<f64> = os.iter().map(|o| o.y).collect();
        with_view!(a.len(), a, |da| with_view!(a.len() / 3, b, |db| self.extend(da, db).unwrap()));
    }
    fn from_iter_(os: &[Ob]) -> Self {
        let t: Vec<(f64, f64)> = os.iter().map(|o| (o.x, o.y)).collect();
        let mut p = Paired::default();
        with_view!(t.len() + 1, t, |d| p.extend_tuple(d).unwrap());
        p
    }
    fn add_(self, o: Self) -> Self {
        self + o
    }
    fn add_assign_(&mut self, o: Self) {
        *self += o;
    }
    fn query(&self) -> Q {
        let n = self.sample_count();
        let vals: Vec<f64> = if n >= 2 { vec![self.sample_mean(), self.sample_sem()] } else if n == 1 { vec![self.sample_mean()] } else { vec![] };
        let cis = QCONFS.iter().map(|(k, l)| call(|| self.ci_mean(conf(*k, *l))).map(|i| Obs::of64(&i))).collect();
        q_of::<f64>(n, 0, vals, cis)
    }
    fn transformed(os: &[Ob]) -> (Vec<f64>, Vec<f64>) {
        (os.iter().map(|o| o.x - o.y).collect(), vec![])
    }
}

impl Acc for Unpaired<f64> {
    const NAME: &'static str = "Unpaired<f64>";
    const U: f64 = U64_;
    const UNPAIRED: bool = true;
    fn new_() -> Self {
        Unpaired::default()
    }
    fn append_(&mut self, o: Ob) {
        if o.flag {
            self.append_a(o.x).unwrap()
        } else {
            self.append_b(o.x).unwrap()
        }
    }
    fn extend_(&mut self, os: &[Ob]) {
        let a: Vec<f64> = os.iter().filter(|o| o.flag).map(|o| o.x).collect();
        let b: Vec<f64> = os.iter().filter(|o| !o.flag).map(|o| o.x).collect();
        with_view!(os.len(), a, |da| with_view!(os.len() / 3, b, |db| self.extend(da, db).unwrap()));
    }
    fn from_iter_(os: &[Ob]) -> Self {
        let a: Vec<f64> = os.iter().filter(|o| o.flag).map(|o| o.x).collect();
        let b: Vec<f64> = os.iter().filter(|o| !o.flag).map(|o| o.x).collect();
        with_view!(os.len() + 1, a, |da| with_view!(os.len() / 3 + 1, b, |db| Unpaired::from_iter(da, db).unwrap()))
    }
    fn add_(self, o: Self) -> Self {
        self + o
    }
    fn add_assign_(&mut self, o: Self) {
        *self += o;
    }
    fn query(&self) -> Q {
        let (na, nb) = (self.stats_a().sample_count(), self.stats_b().sample_count());
        let mut vals: Vec<f64> = vec![];
        if na >= 1 {
            vals.push(self.stats_a().sample_mean());
        }
        if nb >= 1 {
            vals.push(self.stats_b().sample_mean());
        }
        let cis = QCONFS.iter().map(|(k, l)| call(|| self.ci_mean(conf(*k, *l))).map(|i| Obs::of64(&i))).collect();
        q_of::<f64>(na, nb, vals, cis)
    }
    fn transformed(os: &[Ob]) -> (Vec<f64>, Vec<f64>) {
        (os.iter().filter(|o| o.flag).map(|o| o.x).collect(), os.iter().filter(|o| !o.flag).map(|o| o.x).collect())
    }
}

impl Acc for proportion::Stats {
    const NAME: &'static str = "proportion::Stats";
    const U: f64 = 0.0;
    const COUNTS_ONLY: bool = true;
    fn new_() -> Self {
        proportion::Stats::default()
    }
    fn append_(&mut self, o: Ob) {
        if o.flag {
            self.add_success()
        } else {
            self.add_failure()
        }
    }
    fn extend_(&mut self, os: &[Ob]) {
        let v: Vec<bool> = os.iter().map(|o| o.flag).collect();
        with_view!(v.len(), v, |d| self.extend(d));
    }
    fn from_iter_(os: &[Ob]) -> Self {
        // by-value iterators of known and unknown length (filter, flat_map, take_while)
        let v: Vec<bool> = os.iter().map(|o| o.flag).collect();
        crate::lazy::unsized_iter(&v, v.len()).collect()
    }
    fn add_(self, o: Self) -> Self {
        self + o
    }
    fn add_assign_(&mut self, o: Self) {
        *self += o;
    }
    fn query(&self) -> Q {
        let cis = QCONFS.iter().map(|(k, l)| call(|| self.ci(conf(*k, *l))).map(|i| Obs::of64(&i))).collect();
        q_of::<f64>(self.population(), self.successes(), vec![], cis)
    }
    fn transformed(_os: &[Ob]) -> (Vec<f64>, Vec<f64>) {
        (vec![], vec![])
    }
}

impl Acc for quantile::Stats {
    const NAME: &'static str = "quantile::Stats";
    const U: f64 = 0.0;
    const COUNTS_ONLY: bool = true;
    fn new_() -> Self {
        quantile::Stats::default()
    }
    fn append_(&mut self, _o: Ob) {
        *self += quantile::Stats::new(1);
    }
    fn extend_(&mut self, os: &[Ob]) {
        *self += quantile::Stats::new(os.len());
    }
    fn from_iter_(os: &[Ob]) -> Self {
        quantile::Stats::new(os.len())
    }
    fn add_(self, o: Self) -> Self {
        self + o
    }
    fn add_assign_(&mut self, o: Self) {
        *self += o;
    }
    fn query(&self) -> Q {
        let cis = QCONFS
            .iter()
            .map(|(k, l)| {
                call(|| self.ci(conf(*k, *l), 0.4)).map(|i| match i {
                    stats_ci::Interval::TwoSided(a, b) => Obs { kind: Kind::Two, lo: a as f64, hi: b as f64 },
                    stats_ci::Interval::UpperOneSided(a) => Obs { kind: Kind::Upper, lo: a as f64, hi: f64::INFINITY },
                    stats_ci::Interval::LowerOneSided(b) => Obs { kind: Kind::Lower, lo: f64::NEG_INFINITY, hi: b as f64 },
                })
            })
            .collect();
        // population is private: observed through ==
        let mut n = 0usize;
        for k in 0..100_000usize {
            if *self == quantile::Stats::new(k) {
                n = k;
                break;
            }
        }
        q_of::<f64>(n, 0, vec![], cis)
    }
    fn transformed(_os: &[Ob]) -> (Vec<f64>, Vec<f64>) {
        (vec![], vec![])
    }
}

// ------------------------------------------------------------------------------ comparison

/// compare a state reached through a history with the batch state of the same multiset
fn compare<S: Acc>(ctx: &str, slot: &S, shadow: &[Ob], exact_data: bool, case: &dyn Fn() -> Value, l: &mut Local) {
    let batch = S::from_iter_(shadow);
    let (qs, qb) = (slot.query(), batch.query());
    l.eval();
    l.count_s(format!("compared:{}", S::NAME));
    if shadow.is_empty() {
        l.count("compared: empty multiset");
    }
    let (ta, tb) = S::transformed(shadow);
    let want_counts = if S::UNPAIRED { (ta.len(), tb.len()) } else if S::COUNTS_ONLY { (qb.count, qb.count2) } else { (shadow.len(), 0) };
    if (qs.count, qs.count2) != want_counts {
        l.violation(format!("{}|{}|count-differs-from-multiset", S::NAME, ctx), "the sample count after the history is not the size of the delivered multiset".to_string(), case(), json!({"observed_counts": [qs.count, qs.count2], "multiset_counts": [want_counts.0, want_counts.1]}));
        return;
    }
    if S::COUNTS_ONLY {
        // exactly the component-wise sum: every observable identical
        if qs != qb || *slot != batch {
            l.violation(format!("{}|{}|state-not-component-wise-sum", S::NAME, ctx), "the merged state is not exactly the component-wise sum".to_string(), case(), json!({"state": format!("{:?}", slot), "batch": format!("{:?}", batch)}));
        }
        return;
    }
    if exact_data && !S::LOG_SPACE && !S::RECIPROCAL {
        // sums and sums of squares of dyadic data are exact: every history must give the same bits
        l.count("exact-data history compared bit-for-bit");
        if qs != qb {
            l.violation(format!("{}|{}|exact-data-result-differs-from-batch", S::NAME, ctx), "on exactly summable data a history gives results that differ from the batch computation".to_string(), case(), json!({"history": format!("{:?}", qs), "batch": format!("{:?}", qb), "state": format!("{:?}", slot), "batch_state": format!("{:?}", batch)}));
        }
        return;
    }
    // rounding budget from exact statistics of the transformed data (twice the C01 budget)
    if S::UNPAIRED {
        let (sa, sb) = (stats_f64(&ta), stats_f64(&tb));
        if !(in_domain(&sa, S::U) && in_domain(&sb, S::U)) {
            l.count("compared: outside the conditioning domain (counts only)");
            return;
        }
        let r = unpaired_ref(&sa, &sb, S::U);
        for (i, (k, lv)) in QCONFS.iter().enumerate() {
            let tol = 2.0 * unpaired_expected(&r, S::U, *k, *lv).iter().map(|x| x.2).fold(0.0, f64::max);
            judge_pair_ci(S::NAME, ctx, &qs.ci_obs[i], &qb.ci_obs[i], tol, false, case, l);
        }
        return;
    }
    let st = stats_f64(&ta);
    if !in_domain(&st, S::U) {
        l.count("compared: outside the conditioning domain (counts only)");
        return;
    }
    let b = budget(&st, S::U);
    // values are compared in the space in which the sums are formed (identity / ln / reciprocal)
    let tf = |v: f64| -> f64 {
        if S::LOG_SPACE {
            v.ln()
        } else if S::RECIPROCAL {
            1.0 / v
        } else {
            v
        }
    };
    let transformed_space = S::LOG_SPACE || S::RECIPROCAL;
    for (i, (vs, vb)) in qs.vals.iter().zip(qb.vals.iter()).enumerate() {
        if i == 1 && transformed_space {
            continue; // standard errors of the transformed means are C05's relation
        }
        let (x, y) = (f64::from_bits(*vs), f64::from_bits(*vb));
        let tol = if i == 0 { 2.0 * (b.e_m + 2.0 * S::U * st.mean_f.abs()) } else { 2.0 * (b.d_s + 2.0 * S::U * st.sd_f) / ((st.n as f64 - 1.0).max(1.0)).sqrt() } + if transformed_space { 8.0 * S::U * (1.0 + tf(y).abs()) } else { 0.0 };
        l.eval();
        let e = (tf(x) - tf(y)).abs();
        l.max("history_vs_batch_value_diff_over_budget", e / tol);
        if !(e <= tol) && x.is_finite() && y.is_finite() {
            l.violation(format!("{}|{}|{}-differs-from-batch", S::NAME, ctx, if i == 0 { "sample_mean" } else { "sample_sem" }), "a value accessor after the history differs from the batch value beyond rounding".to_string(), case(), json!({"history": x, "batch": y, "n": st.n, "tolerance_in_sum_space": tol}));
        }
    }
    for (i, (k, lv)) in QCONFS.iter().enumerate() {
        // geometric: same kind; harmonic: the reciprocal-space CI is taken at the flipped kind
        let kk = if S::RECIPROCAL { k.flipped() } else { *k };
        let e = expected_mean_ci(&st, S::U, kk, *lv);
        let tol = 2.0 * e.cands.iter().map(|x| x.2).fold(0.0, f64::max);
        judge_pair_ci_tf(S::NAME, ctx, &qs.ci_obs[i], &qb.ci_obs[i], tol, &tf, transformed_space, S::U, case, l);
    }
}

fn judge_pair_ci(name: &str, ctx: &str, a: &Option<Obs>, b: &Option<Obs>, tol: f64, _relative: bool, case: &dyn Fn() -> Value, l: &mut Local) {
    judge_pair_ci_tf(name, ctx, a, b, tol, &|v| v, false, 0.0, case, l)
}

#[allow(clippy::too_many_arguments)]
fn judge_pair_ci_tf(name: &str, ctx: &str, a: &Option<Obs>, b: &Option<Obs>, tol: f64, tf: &dyn Fn(f64) -> f64, transformed: bool, u: f64, case: &dyn Fn() -> Value, l: &mut Local) {
    l.eval();
    match (a, b) {
        (Some(x), Some(y)) => {
            if x.has_nan() || y.has_nan() {
                return;
            }
            let d = |p: f64, q: f64| -> f64 {
                if p == q {
                    0.0
                } else if transformed && !(p > 0.0 && q > 0.0 && p.is_finite() && q.is_finite()) {
                    0.0 // outside the positivity proviso / overflowed back-transform (C05, C11)
                } else {
                    let (tp, tq) = (tf(p), tf(q));
                    ((tp - tq).abs() - if transformed { 8.0 * u * (1.0 + tq.abs()) } else { 0.0 }).max(0.0)
                }
            };
            let e = d(x.lo, y.lo).max(d(x.hi, y.hi));
            l.max("history_vs_batch_ci_diff_over_budget", e / tol);
            if x.kind != y.kind || !(e <= tol) {
                l.violation(format!("{}|{}|ci-differs-from-batch", name, ctx), "the confidence interval after the history differs from the batch interval beyond rounding".to_string(), case(), json!({"history": x.json(), "batch": y.json(), "tolerance_in_sum_space": tol}));
            }
        }
        (None, None) => {}
        _ => l.violation(format!("{}|{}|ci-outcome-differs-from-batch", name, ctx), "the history yields an interval where the batch state yields an error (or vice versa)".to_string(), case(), json!({"history": format!("{:?}", a), "batch": format!("{:?}", b)})),
    }
}

// ------------------------------------------------------------------------------ data

fn gen_obs(r: &mut Rng, n: usize, exact: bool) -> Vec<Ob> {
    let scale = *r.pick(&[1.0, 3.0, 0.01, 250.0]);
    let off = *r.pick(&[0.0, 1.0, -4.0, 20.0]);
    // one data set in eight is measured in a tiny unit (nanoseconds expressed in seconds: 2^-30), one in sixteen in a huge
    // one (2^30): exact powers of two, so conditioning is unchanged, but every partial sum of squares of the first kind
    // lies below the machine epsilon of the element type (a register that is small is not an empty register)
    let unit = match r.below(16) { 0 | 1 => 2f64.powi(-30), 2 => 2f64.powi(30), _ => 1.0 };
    let (scale, off) = (scale * unit, off * unit);
    (0..n)
        .map(|_| {
            if exact {
                Ob { x: r.range(-64, 64) as f64 / 8.0, y: r.range(-64, 64) as f64 / 4.0, flag: r.chance(0.45) }
            } else {
                Ob { x: off + scale * r.normalish(), y: off + scale * (r.f64() - 0.3), flag: r.chance(0.6) }
            }
        })
        .collect()
}

// ------------------------------------------------------------------------------ (i) random programs

#[derive(Clone, Debug, Serialize, Deserialize)]
pub struct ProgCase {
    pub ty: String,
    pub seed: u64,
    pub len: usize,
    pub exact: bool,
}

fn run_program<S: Acc>(pc: &ProgCase, l: &mut Local) {
    let mut r = Rng::from(&[pc.seed, hash_str(S::NAME), 0x9106]);
    let case = || serde_json::to_value(pc).unwrap();
    let mut slots: Vec<S> = (0..4).map(|_| S::new_()).collect();
    let mut shadow: Vec<Vec<Ob>> = vec![vec![]; 4];
    let mut trace: Vec<String> = vec![];
    l.nontrivial(mix(&[pc.seed, hash_str(S::NAME), pc.len as u64, pc.exact as u64]));
    for step in 0..pc.len {
        let s = r.below(4) as usize;
        let op = r.below(100);
        match op {
            0..=4 => {
                slots[s] = S::new_();
                shadow[s].clear();
                trace.push(format!("new({})", s));
                l.count("op:new");
            }
            5..=29 => {
                let o = gen_obs(&mut r, 1, pc.exact)[0];
                slots[s].append_(o);
                shadow[s].push(o);
                trace.push(format!("append({})", s));
                l.count("op:append");
            }
            30..=44 => {
                let k = r.below(9) as usize;
                let os = gen_obs(&mut r, k, pc.exact);
                slots[s].extend_(&os);
                shadow[s].extend(os.iter().cloned());
                trace.push(format!("extend({}, {} obs)", s, k));
                l.count("op:extend");
            }
            45..=54 => {
                let k = r.below(12) as usize;
                let os = gen_obs(&mut r, k, pc.exact);
                slots[s] = S::from_iter_(&os);
                shadow[s] = os;
                trace.push(format!("from_iter({}, {} obs)", s, k));
                l.count("op:from_iter");
            }
            55..=62 => {
                let t = r.below(4) as usize;
                slots[s] = slots[t].clone();
                shadow[s] = shadow[t].clone();
                trace.push(format!("{} = clone({})", s, t));
                l.count("op:clone");
            }
            63..=77 => {
                let (t, u) = (r.below(4) as usize, r.below(4) as usize);
                let merged = slots[t].clone().add_(slots[u].clone());
                let mut sh = shadow[t].clone();
                sh.extend(shadow[u].iter().cloned());
                if shadow[t].is_empty() || shadow[u].is_empty() {
                    l.count("merge with an empty operand");
                }
                slots[s] = merged;
                shadow[s] = sh;
                trace.push(format!("{} = {} + {}", s, t, u));
                l.count("op:add");
            }
            78..=89 => {
                let t = r.below(4) as usize;
                let rhs = slots[t].clone();
                let add = shadow[t].clone();
                if shadow[s].is_empty() || add.is_empty() {
                    l.count("merge with an empty operand");
                }
                slots[s].add_assign_(rhs);
                shadow[s].extend(add);
                trace.push(format!("{} += {}", s, t));
                l.count("op:add_assign");
            }
            _ => {
                // query: must not change the state, must be repeatable, must match the batch state
                let before = slots[s].clone();
                let dbg = format!("{:?}", slots[s]);
                let q1 = slots[s].query();
                let q2 = slots[s].query();
                l.eval();
                l.count("op:query");
                if q1 != q2 {
                    l.violation(format!("{}|query-not-repeatable", S::NAME), "two identical queries on the same state answer differently".to_string(), case(), json!({"first": format!("{:?}", q1), "second": format!("{:?}", q2), "step": step}));
                }
                if slots[s] != before || format!("{:?}", slots[s]) != dbg {
                    l.violation(format!("{}|query-modified-state", S::NAME), "a query modified the state".to_string(), case(), json!({"before": dbg, "after": format!("{:?}", slots[s]), "step": step}));
                }
                compare::<S>("program", &slots[s], &shadow[s], pc.exact, &|| json!({"what": "program", "case": pc, "step": step, "trace": trace}), l);
            }
        }
    }
    for s in 0..4 {
        compare::<S>("program", &slots[s], &shadow[s], pc.exact, &|| json!({"what": "program", "case": pc, "step": "end", "slot": s, "trace": trace}), l);
    }
    if l.wants_sample(&format!("program:{}", S::NAME)) {
        l.sample(&format!("program:{}", S::NAME), || json!({"case": pc, "trace": trace.iter().take(40).collect::<Vec<_>>(), "final_counts": shadow.iter().map(|s| s.len()).collect::<Vec<_>>(), "slot0": format!("{:?}", slots[0].query())}));
    }
}

// ------------------------------------------------------------------------------ (ii) merge trees

/// all ordered binary trees over the sequence `seq` (contiguous splits), evaluated by merging
fn all_trees<S: Acc>(seq: &[usize], leaves: &[S]) -> Vec<S> {
    if seq.len() == 1 {
        return vec![leaves[seq[0]].clone()];
    }
    let mut out = vec![];
    for cut in 1..seq.len() {
        let ls = all_trees::<S>(&seq[..cut], leaves);
        let rs = all_trees::<S>(&seq[cut..], leaves);
        for a in ls.iter() {
            for b in rs.iter() {
                out.push(a.clone().add_(b.clone()));
            }
        }
    }
    out
}

#[derive(Clone, Debug, Serialize, Deserialize)]
pub struct TreeCase {
    pub ty: String,
    pub seed: u64,
    pub k: usize,
    pub exact: bool,
}

fn run_trees<S: Acc>(tc: &TreeCase, l: &mut Local) {
    let mut r = Rng::from(&[tc.seed, hash_str(S::NAME), 0x73ee]);
    // chunk sizes including 0 (empty operand) and 1
    let sizes: Vec<usize> = (0..tc.k).map(|i| if i == 0 { *r.pick(&[0usize, 1, 2, 5]) } else { *r.pick(&[0usize, 1, 2, 3, 7, 20]) }).collect();
    let chunks: Vec<Vec<Ob>> = sizes.iter().map(|n| gen_obs(&mut r, *n, tc.exact)).collect();
    let leaves: Vec<S> = chunks.iter().map(|c| S::from_iter_(c)).collect();
    let all: Vec<Ob> = chunks.iter().flatten().cloned().collect();
    let perms = sci_common::gen::permutations(tc.k);
    let mut nt = 0u64;
    l.nontrivial(mix(&[tc.seed, hash_str(S::NAME), tc.k as u64, 0x73]));
    for p in perms.iter() {
        let results = all_trees::<S>(p, &leaves);
        for (ti, res) in results.iter().enumerate() {
            nt += 1;
            // the multiset is the same whatever the order; the shadow order follows the leaf order
            let shadow: Vec<Ob> = p.iter().flat_map(|i| chunks[*i].iter().cloned()).collect();
            compare::<S>("merge-tree", res, &shadow, tc.exact, &|| json!({"what": "tree", "case": tc, "leaf_order": p, "tree_index": ti, "chunk_sizes": sizes}), l);
        }
    }
    let _ = all;
    l.count_n("merge trees evaluated", nt);
    if sizes.iter().any(|s| *s == 0) {
        l.count("merge trees with an empty chunk");
    }
}

// ------------------------------------------------------------------------------ (iii) threaded reduce

#[derive(Clone, Debug)]
struct Event {
    t: u64,
    worker: usize,
    left: usize,
    right: usize,
    new: usize,
}

/// reduce `leaves` with `workers` threads popping two states from a shared pool; returns the
/// root state and the event log
fn threaded_reduce<S: Acc>(leaves: Vec<S>, workers: usize, seed: u64) -> (S, Vec<Event>) {
    let k = leaves.len();
    let pool: Mutex<Vec<(usize, S)>> = Mutex::new(leaves.into_iter().enumerate().collect());
    let log: Mutex<Vec<Event>> = Mutex::new(vec![]);
    let clock = AtomicU64::new(0);
    let next_id = AtomicU64::new(k as u64);
    let merges = AtomicU64::new(0);
    let barrier = std::sync::Barrier::new(workers);
    std::thread::scope(|sc| {
        for w in 0..workers {
            let (pool, log, clock, next_id, merges, barrier) = (&pool, &log, &clock, &next_id, &merges, &barrier);
            sc.spawn(move || {
                let mut r = Rng::from(&[seed, w as u64, 0x7123]);
                // all workers start together, so that merges really are taken by different threads
                barrier.wait();
                loop {
                    if r.below(3) == 0 {
                        std::thread::yield_now();
                    }
                    if merges.load(Ordering::SeqCst) as usize >= k.saturating_sub(1) {
                        break;
                    }
                    let pair = {
                        let mut p = pool.lock().unwrap();
                        if p.len() >= 2 {
                            let i = r.below(p.len() as u64) as usize;
                            let a = p.swap_remove(i);
                            let j = r.below(p.len() as u64) as usize;
                            let b = p.swap_remove(j);
                            Some((a, b))
                        } else {
                            None
                        }
                    };
                    match pair {
                        None => std::thread::yield_now(),
                        Some(((ia, a), (ib, b))) => {
                            // injected delay between the two critical sections
                            match r.below(4) {
                                0 => std::thread::yield_now(),
                                1 => {
                                    for _ in 0..r.below(2000) {
                                        std::hint::spin_loop();
                                    }
                                }
                                _ => {}
                            }
                            let m = a.add_(b);
                            let id = next_id.fetch_add(1, Ordering::SeqCst) as usize;
                            let t = clock.fetch_add(1, Ordering::SeqCst);
                            log.lock().unwrap().push(Event { t, worker: w, left: ia, right: ib, new: id });
                            pool.lock().unwrap().push((id, m));
                            merges.fetch_add(1, Ordering::SeqCst);
                        }
                    }
                }
            });
        }
    });
    let mut p = pool.into_inner().unwrap();
    let root = p.pop().map(|x| x.1).unwrap_or_else(S::new_);
    (root, log.into_inner().unwrap())
}

/// offline checker over the event log: a binary tree whose leaves are the chunk ids exactly once
fn check_log(k: usize, log: &[Event]) -> Result<String, String> {
    if k == 0 {
        return Ok("empty".into());
    }
    if log.len() != k - 1 {
        return Err(format!("{} merges logged for {} chunks", log.len(), k));
    }
    let mut consumed: HashSet<usize> = HashSet::new();
    let mut produced: HashSet<usize> = (0..k).collect();
    let mut shape: std::collections::HashMap<usize, String> = (0..k).map(|i| (i, "L".to_string())).collect();
    let mut leafsets: std::collections::HashMap<usize, Vec<usize>> = (0..k).map(|i| (i, vec![i])).collect();
    let mut ev: Vec<&Event> = log.iter().collect();
    ev.sort_by_key(|e| e.t);
    let mut last = 0;
    for e in ev {
        for id in [e.left, e.right] {
            if !produced.contains(&id) {
                return Err(format!("state {} merged before it was produced", id));
            }
            if !consumed.insert(id) {
                return Err(format!("state {} merged twice", id));
            }
        }
        if e.left == e.right {
            return Err(format!("state {} merged with itself", e.left));
        }
        if !produced.insert(e.new) {
            return Err(format!("state id {} produced twice", e.new));
        }
        let (sl, sr) = (shape[&e.left].clone(), shape[&e.right].clone());
        // canonical (unordered) shape
        let (a, b) = if sl <= sr { (sl, sr) } else { (sr, sl) };
        shape.insert(e.new, format!("({}{})", a, b));
        let mut ls = leafsets[&e.left].clone();
        ls.extend(leafsets[&e.right].iter().cloned());
        leafsets.insert(e.new, ls);
        last = e.new;
    }
    let mut leaves = leafsets[&last].clone();
    leaves.sort();
    if leaves != (0..k).collect::<Vec<_>>() {
        return Err(format!("the root does not contain every chunk exactly once: {:?}", leaves));
    }
    Ok(shape[&last].clone())
}

#[derive(Clone, Debug, Serialize, Deserialize)]
pub struct ReduceCase {
    pub ty: String,
    pub seed: u64,
    pub chunks: usize,
    pub workers: usize,
    pub exact: bool,
}

fn run_reduce<S: Acc>(rc: &ReduceCase, shapes: &Mutex<HashSet<String>>, l: &mut Local) {
    let mut r = Rng::from(&[rc.seed, hash_str(S::NAME), 0x4ed]);
    let chunks: Vec<Vec<Ob>> = (0..rc.chunks).map(|_| { let n = *r.pick(&[0usize, 1, 2, 5, 17, 64]); gen_obs(&mut r, n, rc.exact) }).collect();
    let leaves: Vec<S> = chunks.iter().map(|c| S::from_iter_(c)).collect();
    let all: Vec<Ob> = chunks.iter().flatten().cloned().collect();
    let (root, log) = threaded_reduce::<S>(leaves, rc.workers, rc.seed);
    let case = || json!({"what": "reduce", "case": rc});
    l.eval();
    l.count("threaded reductions");
    l.count_n("merge events logged", log.len() as u64);
    l.nontrivial(mix(&[rc.seed, hash_str(S::NAME), rc.chunks as u64, rc.workers as u64]));
    match check_log(rc.chunks, &log) {
        Ok(shape) => {
            shapes.lock().unwrap().insert(shape);
        }
        Err(why) => {
            l.violation(format!("{}|threaded-reduce|event-log-not-a-merge-tree", S::NAME), format!("the merge log of the parallel reduce is not a binary tree over the chunks exactly once: {}", why), case(), json!({"log": log.iter().take(40).map(|e| json!([e.t, e.worker, e.left, e.right, e.new])).collect::<Vec<_>>()}));
            return;
        }
    }
    let workers_seen: HashSet<usize> = log.iter().map(|e| e.worker).collect();
    if workers_seen.len() >= 2 {
        l.count("reductions with merges by >= 2 workers");
    }
    compare::<S>("threaded-reduce", &root, &all, rc.exact, &case, l);
    if l.wants_sample(&format!("reduce:{}", S::NAME)) {
        l.sample(&format!("reduce:{}", S::NAME), || json!({"case": rc, "events": log.iter().take(12).map(|e| json!({"t": e.t, "worker": e.worker, "left": e.left, "right": e.right, "new": e.new})).collect::<Vec<_>>(), "root": format!("{:?}", root.query()), "observations": all.len()}));
    }
}

fn run_rayon(seed: u64, i: u64, l: &mut Local) {
    use rayon::prelude::*;
    let mut r = Rng::from(&[seed, 0x4a1, i]);
    let exact = i % 2 == 0;
    let chunks: Vec<Vec<f64>> = (0..r.range(1, 40)).map(|_| { let n = r.below(50) as usize; gen_obs(&mut r, n, exact).iter().map(|o| o.x).collect() }).collect();
    let root: Arithmetic<f64> = chunks.par_iter().map(|c| Arithmetic::<f64>::from_iter(c).unwrap()).reduce(Arithmetic::<f64>::default, |a, b| a + b);
    let all: Vec<Ob> = chunks.iter().flatten().map(|x| Ob { x: *x, y: 0.0, flag: true }).collect();
    l.count("rayon reductions");
    l.nontrivial(mix(&[seed, i, 0x4a1]));
    compare::<Arithmetic<f64>>("rayon-reduce", &root, &all, exact, &|| json!({"what": "rayon", "i": i}), l);
    // proportion: exact
    let flags: Vec<Vec<bool>> = (0..r.range(1, 30)).map(|_| (0..r.below(40)).map(|_| r.bool()).collect()).collect();
    let rootp: proportion::Stats = flags.par_iter().map(|c| c.iter().copied().collect::<proportion::Stats>()).reduce(proportion::Stats::default, |a, b| a + b);
    let allp: Vec<Ob> = flags.iter().flatten().map(|f| Ob { x: 0.0, y: 0.0, flag: *f }).collect();
    compare::<proportion::Stats>("rayon-reduce", &rootp, &allp, true, &|| json!({"what": "rayon", "i": i}), l);
}

macro_rules! for_each_type {
    ($name:expr, $f:ident, $($arg:expr),*) => {
        match $name {
            "Arithmetic<f64>" => $f::<Arithmetic<f64>>($($arg),*),
            "Arithmetic<f32>" => $f::<Arithmetic<f32>>($($arg),*),
            "Geometric<f64>" => $f::<Geometric<f64>>($($arg),*),
            "Geometric<f32>" => $f::<Geometric<f32>>($($arg),*),
            "Harmonic<f64>" => $f::<Harmonic<f64>>($($arg),*),
            "Harmonic<f32>" => $f::<Harmonic<f32>>($($arg),*),
            "Paired<f64>" => $f::<Paired<f64>>($($arg),*),
            "Unpaired<f64>" => $f::<Unpaired<f64>>($($arg),*),
            "proportion::Stats" => $f::<proportion::Stats>($($arg),*),
            _ => $f::<quantile::Stats>($($arg),*),
        }
    };
}
/// long chains of merges of small partial states, in the three orders a streaming reduce can take
fn long_chain<S: Acc>(seed: u64, i: u64, parts: usize, l: &mut Local) {
    let mut r = Rng::from(&[seed, hash_str(S::NAME), 0xc4a1, i]);
    let order = i % 3; // 0: acc + part, 1: part + acc, 2: alternating
    let mut all: Vec<Ob> = vec![];
    let mut acc = S::new_();
    for j in 0..parts {
        let n = 1 + r.below(3) as usize;
        let os = gen_obs(&mut r, n, false);
        let part = S::from_iter_(&os);
        all.extend(os.iter().cloned());
        acc = match (order, j % 2) {
            (0, _) | (2, 0) => acc.add_(part),
            _ => part.add_(acc),
        };
    }
    l.count("long merge chains judged");
    l.nontrivial(mix(&[seed, i, hash_str(S::NAME), parts as u64]));
    compare::<S>(["long-chain(acc+part)", "long-chain(part+acc)", "long-chain(alternating)"][order as usize], &acc, &all, false, &|| json!({"what": "chain", "ty": S::NAME, "i": i, "parts": parts}), l);
}

/// counts beyond the integer range of the element type (2^24 for f32, 2^53 for f64): states of that
/// size are reached in a few doubling merges, then fed one by one and merged with small states
fn large_counts(l: &mut Local) {
    fn go<F: crate::props::fl::Fl>(bits: u32, l: &mut Local) {
        let mut big = Arithmetic::<F>::new();
        StatisticsOps::append(&mut big, F::of(1.0)).unwrap();
        StatisticsOps::append(&mut big, F::of(-1.0)).unwrap();
        while big.sample_count() < (1usize << bits) - 2 {
            let need = (1usize << bits) - 2 - big.sample_count();
            if big.sample_count() <= need {
                big = big + big;
            } else {
                // top up with a smaller power-of-two state
                let mut part = Arithmetic::<F>::new();
                StatisticsOps::append(&mut part, F::of(1.0)).unwrap();
                StatisticsOps::append(&mut part, F::of(-1.0)).unwrap();
                while part.sample_count() * 2 <= need {
                    part = part + part;
                }
                big = big + part;
            }
        }
        let base = big.sample_count();
        let mut st = big;
        for j in 0..6 {
            StatisticsOps::append(&mut st, F::of(if j % 2 == 0 { 1.0 } else { -1.0 })).unwrap();
        }
        let mut chunk = Arithmetic::<F>::new();
        StatisticsOps::extend(&mut chunk, &vec![F::of(1.0), F::of(-1.0), F::of(1.0), F::of(-1.0)]).unwrap();
        let merged = st + chunk;
        l.eval();
        l.count("large-count states judged (2^24 / 2^53 observations)");
        l.nontrivial(mix(&[bits as u64, F::IS32 as u64, 0x1a6]));
        let want = base + 6;
        if st.sample_count() != want || merged.sample_count() != want + 4 || st.sample_mean().f() != 0.0 {
            l.violation(
                format!("Arithmetic<{}>|large-count|count-or-mean-differs-from-multiset", F::TY),
                format!("after 2^{} observations the state no longer counts (or averages) what it is fed", bits),
                json!({"what": "large-count"}),
                json!({"expected_count_after_6_appends": want, "observed": st.sample_count(), "after_merging_4_more": merged.sample_count(), "mean": st.sample_mean().f()}),
            );
        }
    }
    go::<f32>(24, l);
    go::<f64>(24, l);
    go::<f64>(53, l);
    go::<f32>(31, l);
}

pub const TYPES: [&str; 10] = ["Arithmetic<f64>", "Arithmetic<f32>", "Geometric<f64>", "Geometric<f32>", "Harmonic<f64>", "Harmonic<f32>", "Paired<f64>", "Unpaired<f64>", "proportion::Stats", "quantile::Stats"];

/// Chunked `extend_if` / one-shot `ci_if` with a predicate that carries state (a sampling rule, a rate
/// limiter, a random draw): every observation is counted exactly once, so the population after the chunks
/// is the number of observations, and one batch and many chunks agree on it.
fn stateful_predicate(seed: u64, i: u64, l: &mut Local) {
    let mut r = Rng::from(&[seed, 0x57a7e, i]);
    let n = r.range(1, 400) as usize;
    let data: Vec<u32> = (0..n).map(|_| r.below(1000) as u32).collect();
    let state = std::cell::Cell::new(r.next_u64() | 1);
    let pred = |x: &u32| {
        // xorshift: the answer depends on how often the predicate was asked, not only on x
        let mut s = state.get();
        s ^= s << 13;
        s ^= s >> 7;
        s ^= s << 17;
        state.set(s);
        (s >> 33) % 3 == 0 || *x == 999
    };
    let mut whole = proportion::Stats::default();
    whole.extend_if(&data, pred);
    let mut chunked = proportion::Stats::default();
    let mut at = 0;
    while at < n {
        let k = (1 + r.below(50) as usize).min(n - at);
        let part = data[at..at + k].to_vec();
        let mut st = proportion::Stats::default();
        st.extend_if(&part, pred);
        if r.bool() {
            chunked += st;
        } else {
            chunked = st + chunked;
        }
        at += k;
    }
    l.eval();
    l.count("stateful predicate judged");
    l.nontrivial(mix(&[seed, i, 0x57a7e]));
    if whole.population() != n || chunked.population() != n || whole.successes() > n || chunked.successes() > n {
        l.violation(
            "proportion::Stats::extend_if|stateful-predicate|count-differs-from-observations".to_string(),
            "extend_if with a predicate that carries state does not count every observation exactly once".to_string(),
            json!({"what": "stateful", "i": i}),
            json!({"observations": n, "population(one batch)": whole.population(), "population(chunks merged)": chunked.population(), "successes": [whole.successes(), chunked.successes()]}),
        );
    }
}

pub fn run(run: &Arc<Run>) {
    let seed = run.cfg.seed;
    run.set_rule(
        "(i) seeded random programs (length 5..200) over 4 slots and the operations {new, append, extend(chunk), from_iter(chunk), clone, a = b + c, a += b, query} for Arithmetic, Geometric, Harmonic (f32/f64), Paired, Unpaired, proportion::Stats, quantile::Stats, with a shadow multiset per slot: after every query and at the end each slot is compared with a fresh batch state of its multiset \
         (count exactly; on exactly summable dyadic data every observable bit-for-bit; otherwise mean / standard error / CIs within twice the C01 rounding budget; proportion/quantile states exactly the component-wise sum); queries must not modify the state and must be repeatable; \
         (ii) every binary merge tree x every leaf order for 2..5 chunks (2, 12, 120, 1680 trees per data set) with chunk sizes incl. 0 and 1; (iii) a threaded reduce (2..16 workers popping two states from a shared pool, merging outside the lock with injected yields/spins) whose merge log is checked offline to be a binary tree over the chunks exactly once, root compared with the batch state; distinct tree shapes are counted; (iv) rayon par_iter().map(from_iter).reduce(default, +). \
         distinct = (type, program / tree / reduce seed) fingerprints.",
    );
    run.assume("rounding budget as in C01 (DESIGN.md section 3), doubled because two computations are compared");
    let shapes: Mutex<HashSet<String>> = Mutex::new(HashSet::new());
    if let Some(case) = &run.replay_case {
        let mut l = run.local();
        match case["what"].as_str().unwrap_or("") {
            "program" => {
                let pc: ProgCase = serde_json::from_value(case["case"].clone()).unwrap();
                for_each_type!(pc.ty.as_str(), run_program, &pc, &mut l);
            }
            "tree" => {
                let tc: TreeCase = serde_json::from_value(case["case"].clone()).unwrap();
                for_each_type!(tc.ty.as_str(), run_trees, &tc, &mut l);
            }
            "reduce" => {
                let rc: ReduceCase = serde_json::from_value(case["case"].clone()).unwrap();
                for_each_type!(rc.ty.as_str(), run_reduce, &rc, &shapes, &mut l);
            }
            "rayon" => run_rayon(seed, case["i"].as_u64().unwrap(), &mut l),
            "order" => crate::props::purity::order_independence("interleaved queries", seed, case["i"].as_u64().unwrap(), &mut l),
            "large-count" => large_counts(&mut l),
            "stateful" => stateful_predicate(seed, case["i"].as_u64().unwrap(), &mut l),
            "chain" => {
                let (ty, i, parts) = (case["ty"].as_str().unwrap_or(""), case["i"].as_u64().unwrap(), case["parts"].as_u64().unwrap() as usize);
                for_each_type!(ty, long_chain, seed, i, parts, &mut l);
            }
            _ => {}
        }
        run.absorb(l);
        return;
    }
    // interleaved queries on different states / confidences never influence one another
    run.par(run.cfg.by(150u64, 3000), |i, l| crate::props::purity::order_independence("interleaved queries", seed, i, l));
    {
        let mut l = run.local();
        large_counts(&mut l);
        run.absorb(l);
    }
    run.par(run.cfg.by(300u64, 6000), |i, l| stateful_predicate(seed, i, l));
    // long chains (a streaming reduce over thousands of small partial states)
    let nchain = run.cfg.by(60u64, 1200);
    run.par(nchain, |i, l| {
        let ty = ["Arithmetic<f32>", "Arithmetic<f64>", "Geometric<f32>", "Harmonic<f32>", "Paired<f64>", "Unpaired<f64>"][(i / 3 % 6) as usize];
        let parts = if i % 5 == 0 { 100_000 } else { 20_000 };
        for_each_type!(ty, long_chain, seed, i, parts, l);
    });
    // (i)
    let nprog = run.cfg.by(20_000u64, 600_000);
    run.par(nprog, |i, l| {
        let mut r = Rng::from(&[seed, 0xc09, i]);
        let ty = TYPES[(i % 10) as usize];
        let pc = ProgCase { ty: ty.to_string(), seed: r.next_u64(), len: r.range(5, 200) as usize, exact: (i / 10) % 2 == 0 };
        for_each_type!(ty, run_program, &pc, l);
    });
    // (ii)
    let nsets = run.cfg.by(20u64, 300);
    run.par(nsets * 10 * 4, |i, l| {
        let mut r = Rng::from(&[seed, 0xc09b, i]);
        let ty = TYPES[(i % 10) as usize];
        let k = 2 + ((i / 10) % 4) as usize;
        let tc = TreeCase { ty: ty.to_string(), seed: r.next_u64(), k, exact: (i / 40) % 2 == 0 };
        for_each_type!(ty, run_trees, &tc, l);
    });
    // (iii): each reduction spawns its own workers; run them from a few driver threads
    let nred = run.cfg.by(240u64, 8000);
    let drivers = 4;
    std::thread::scope(|sc| {
        for d in 0..drivers {
            let shapes = &shapes;
            let run = run.clone();
            sc.spawn(move || {
                let mut l = run.local();
                let mut i = d as u64;
                while i < nred {
                    let mut r = Rng::from(&[seed, 0xc09c, i]);
                    let ty = TYPES[(i % 10) as usize];
                    let rc = ReduceCase { ty: ty.to_string(), seed: r.next_u64(), chunks: *r.pick(&[2usize, 3, 5, 8, 13, 24, 40]), workers: *r.pick(&[2usize, 4, 8, 16]), exact: (i / 10) % 2 == 0 };
                    for_each_type!(ty, run_reduce, &rc, shapes, &mut l);
                    i += drivers as u64;
                }
                run.absorb(l);
            });
        }
    });
    // (iv)
    let nray = run.cfg.by(200u64, 5000);
    let mut l = run.local();
    for i in 0..nray {
        run_rayon(seed, i, &mut l);
    }
    run.absorb(l);
    if !run.cfg.quick() {
        // sanitizer lane: data-race / UB interpreter on a threaded reduce, several schedules
        crate::props::miri_lane::under_miri(run, "c09", Some("0..8"));
    }
    let nshapes = shapes.lock().unwrap().len();
    run.extra("distinct_merge_tree_shapes_seen_in_threaded_reduce", json!(nshapes));
    run.extra("sample_shapes", json!(shapes.lock().unwrap().iter().take(5).collect::<Vec<_>>()));
    if nshapes < 20 {
        run.inconclusive(format!("only_{}_distinct_merge_tree_shapes_in_threaded_reduce", nshapes));
    }
    let mut req: Vec<String> = vec![
        "op:new".into(),
        "op:append".into(),
        "op:extend".into(),
        "stateful predicate judged".into(),
        "op:from_iter".into(),
        "op:clone".into(),
        "op:add".into(),
        "op:add_assign".into(),
        "op:query".into(),
        "merge with an empty operand".into(),
        "merge trees evaluated".into(),
        "merge trees with an empty chunk".into(),
        "threaded reductions".into(),
        "reductions with merges by >= 2 workers".into(),
        "rayon reductions".into(),
        "exact-data history compared bit-for-bit".into(),
        "compared: empty multiset".into(),
        "order-independence groups judged".into(),
        "long merge chains judged".into(),
        "large-count states judged (2^24 / 2^53 observations)".into(),
    ];
    for t in TYPES {
        req.push(format!("compared:{}", t));
    }
    let r: Vec<&str> = req.iter().map(|s| s.as_str()).collect();
    run.require(&r);
    let _ = (KINDS, jf(0.0));
}
