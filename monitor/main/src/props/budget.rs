//! Error budgets (DESIGN.md section 3) and the reference mean interval.
#![allow(dead_code)]
use sci_common::dist::{norm_pdf, norm_ppf_cached, t_pdf, t_ppf_cached};
use sci_common::exact::ExactStats;
use sci_common::gen::Kind;

pub const K_S: f64 = 8.0;
pub const U64: f64 = 1.1102230246251565e-16;

/// Accuracy conceded to the t quantile, in probability space (calibrated on the repaired tree,
/// 7*10^6 events, worst observed/conceded 0.25). Away from the centre the crate's quantile is
/// good to ~3e-11. Towards the centre it is limited by the granularity of x = nu/(nu + t^2) in the
/// underlying CDF routine: an error ~ 2e-17 * nu / |p - 1/2|, capped by the width of the region
/// where that x rounds to 1 (~ 1e-8 * sqrt(nu)).
pub fn tol_p(nu: f64, target: f64) -> f64 {
    let off = (target - 0.5).abs().max(1e-300);
    1e-10 + 2e-15 * nu + (5e-8 * nu.sqrt()).min(1e-16 * nu / off)
}
pub const TOL_P_NORMAL: f64 = 1e-12;

/// below this dof the t quantile is required, above `Z_FROM` the normal one; in between either
pub const T_UNTIL: f64 = 90_000.0;
pub const Z_FROM: f64 = 110_000.0;

/// conditioning domain: kappa * u <= 2^-12
pub fn in_domain(st: &ExactStats, u: f64) -> bool {
    st.n >= 2 && st.var_f > 0.0 && st.var_f.is_finite() && st.kappa.is_finite() && st.kappa * u <= 2f64.powi(-12)
}

#[derive(Clone, Copy, Debug)]
pub struct Crit {
    pub c: f64,
    /// tolerance on c
    pub dc: f64,
    pub which: &'static str,
}

/// admissible critical values for `nu` degrees of freedom at the target probability
pub fn crit(nu: f64, target: f64) -> Vec<Crit> {
    let mut v = vec![];
    if nu < Z_FROM {
        let c = t_ppf_cached(target, nu);
        let dc = tol_p(nu, target) / t_pdf(c, nu).max(1e-300);
        v.push(Crit { c, dc, which: "t" });
    }
    if nu >= T_UNTIL {
        let c = norm_ppf_cached(target);
        let dc = TOL_P_NORMAL / norm_pdf(c).max(1e-300);
        v.push(Crit { c, dc, which: "z" });
    }
    v
}

#[derive(Clone, Debug)]
pub struct Budget {
    pub e_m: f64,
    pub d_v: f64,
    pub d_s: f64,
}

pub fn budget(st: &ExactStats, u: f64) -> Budget {
    let n = st.n as f64;
    let e_m = (K_S + 1.0) * u * st.a_f / n;
    let d_v = 32.0 * u * st.q_f / (n - 1.0);
    let d_s = d_v / st.sd_f + u * st.sd_f;
    Budget { e_m, d_v, d_s }
}

#[derive(Clone, Debug)]
pub struct Expected {
    pub kind: Kind,
    /// candidate (lo, hi, tolerance, which) per admissible critical value
    pub cands: Vec<(f64, f64, f64, &'static str, f64)>,
}

/// the reference interval mu -/+ c s / sqrt(n) and its rounding budget
pub fn expected_mean_ci(st: &ExactStats, u: f64, kind: Kind, level: f64) -> Expected {
    let n = st.n as f64;
    let nu = n - 1.0;
    let b = budget(st, u);
    let se = st.sd_f / n.sqrt();
    let mut cands = vec![];
    for cr in crit(nu, kind.target(level)) {
        let span = cr.c * se;
        let lo = st.mean_f - span;
        let hi = st.mean_f + span;
        let tol = b.e_m
            + cr.c.abs() * b.d_s / n.sqrt()
            + cr.dc * se
            + 8.0 * U64 * (st.mean_f.abs() + span.abs())
            + u * (st.mean_f.abs() + span.abs());
        cands.push((lo, hi, tol, cr.which, cr.c));
    }
    Expected { kind, cands }
}

/// worst error/tolerance ratio of an observed (lo, hi) against the best candidate; bounds on
/// absent sides are ignored.
pub fn judge_bounds(e: &Expected, kind: Kind, lo: f64, hi: f64) -> (f64, &'static str, f64, f64) {
    let mut best = (f64::INFINITY, "none", f64::NAN, f64::NAN);
    for (elo, ehi, tol, which, _c) in e.cands.iter() {
        let mut r: f64 = 0.0;
        if kind != Kind::Lower {
            r = r.max((lo - elo).abs() / tol);
        }
        if kind != Kind::Upper {
            r = r.max((hi - ehi).abs() / tol);
        }
        if r.is_nan() {
            r = f64::INFINITY;
        }
        if r < best.0 {
            best = (r, which, *elo, *ehi);
        }
    }
    best
}
