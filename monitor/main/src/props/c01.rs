//! C01 — arithmetic-mean CI is the Student-t interval of the exact sample statistics.
use crate::api::{call, conf, Obs, Out};
use crate::props::budget::{budget, expected_mean_ci, in_domain, judge_bounds};
use crate::props::fl::{conv, Fl};
use sci_common::exact::{stats_f64, ExactStats};
use sci_common::gen::{level_grid, sample, Family, Kind, Spec, KINDS, REAL_FAMILIES};
use sci_common::rt::{hash_f64s, jf, mix, Local, Rng, Run};
use serde_json::{json, Value};
use stats_ci::mean::Arithmetic;
use stats_ci::{MeanCI, StatisticsOps};
use std::sync::Arc;

fn n_class(n: usize) -> &'static str {
    match n {
        0..=9 => "n=2..9",
        10..=200 => "n=10..200",
        201..=20_000 => "n=201..2e4",
        20_001..=89_999 => "n=2e4..9e4",
        90_000..=110_000 => "n~1e5(switch band)",
        _ => "n>1.1e5(normal branch)",
    }
}

pub fn judge_sample<F: Fl>(spec: &Spec, confs: &[(Kind, f64)], case: &dyn Fn() -> Value, l: &mut Local) {
    let mut data64 = sample(spec);
    if spec.seed % 16 == 7 && data64.len() <= 5000 {
        // one sample in sixteen is expressed in a unit that puts its sum of squares just below the top
        // of the exponent range (an exact power-of-two scaling): everything the crate documents (sum,
        // sum of squares) is still finite, anything larger it forms on the way (e.g. the square of the
        // sum) is not
        let q: f64 = data64.iter().map(|x| (x / 1.0e150) * (x / 1.0e150)).sum::<f64>();
        if q > 0.0 && q.is_finite() {
            let top = if F::IS32 { 127.0 } else { 1023.0 };
            let e = ((top - 5.0 - (q.log2() + 2.0 * (1.0e150f64).log2())) / 2.0).floor() as i32;
            let f = 2f64.powi(e.clamp(-1000, 1000));
            let scaled: Vec<f64> = data64.iter().map(|x| x * f).collect();
            let fits = scaled.iter().all(|x| x.is_finite() && (*x == 0.0 || x.abs() >= if F::IS32 { 1e-30 } else { 1e-290 }));
            if fits {
                data64 = scaled;
                l.count("sample scaled to the top of the exponent range");
            }
        }
    }
    let data: Vec<F> = conv::<F>(&data64);
    let n = data.len();
    let st: ExactStats = stats_f64(&data64);
    let dom = in_domain(&st, F::U);
    let fam = spec.family.name();
    // call styles (all see the data in the same order)
    let s_iter = Arithmetic::<F>::from_iter(&data).expect("from_iter");
    let mut s_app = Arithmetic::<F>::new();
    for &x in data.iter() {
        StatisticsOps::append(&mut s_app, x).expect("append");
    }
    let mut s_ext = Arithmetic::<F>::new();
    {
        let mut r = Rng::from(&[spec.seed, 0xe47]);
        let mut i = 0;
        while i < n {
            let k = (1 + r.below(1 + n as u64 / 3) as usize).min(n - i);
            let chunk: Vec<F> = data[i..i + k].to_vec();
            s_ext.extend(&chunk).expect("extend");
            i += k;
        }
    }
    l.eval();
    if !(s_iter == s_app && s_iter == s_ext) || format!("{:?}", s_iter) != format!("{:?}", s_app) || format!("{:?}", s_iter) != format!("{:?}", s_ext) {
        l.violation(format!("Arithmetic|call-styles-differ|{}", F::TY), "from_iter, append and chunked extend build different states from the same data".to_string(), case(), json!({"from_iter": format!("{:?}", s_iter), "append": format!("{:?}", s_app), "extend": format!("{:?}", s_ext)}));
    }
    // accessors
    if dom {
        let b = budget(&st, F::U);
        let (m, v, sd) = (s_iter.sample_mean().f(), s_iter.sample_variance().f(), s_iter.sample_std_dev().f());
        l.eval();
        let rm = st.mean.diff_from(m).abs() / (b.e_m + F::U * st.mean_f.abs());
        let rv = st.var.as_ref().unwrap().diff_from(v).abs() / (b.d_v + 2.0 * F::U * st.var_f);
        let rs = (sd - st.sd_f).abs() / (b.d_s + 2.0 * F::U * st.sd_f);
        l.max("mean_err_over_budget", rm);
        l.max("variance_err_over_budget", rv);
        l.max("std_dev_err_over_budget", rs);
        if !(rm <= 1.0) || !(rv <= 1.0) || !(rs <= 1.0) || s_iter.sample_count() != n {
            let what = if !(rm <= 1.0) { "sample_mean" } else if !(rv <= 1.0) { "sample_variance" } else if !(rs <= 1.0) { "sample_std_dev" } else { "sample_count" };
            l.violation(
                format!("Arithmetic::{}|{}|off-exact-statistic", what, F::TY),
                format!("{} differs from the exact statistic of the data beyond the rounding budget", what),
                case(),
                json!({"n": n, "observed": {"mean": m, "variance": v, "std_dev": sd, "count": s_iter.sample_count()}, "exact": {"mean": st.mean_f, "variance": st.var_f, "std_dev": st.sd_f}, "ratios": [rm, rv, rs], "kappa": st.kappa}),
            );
        }
    }
    let one_shot_limit = if n > 20_000 { 1 } else { usize::MAX };
    for (ci, &(kind, level)) in confs.iter().enumerate() {
        let c = conf(kind, level);
        let base = call(|| s_iter.ci_mean(c)).map(|i| F::obs(&i));
        l.eval();
        // every style returns the same bits
        let mut styles: Vec<(&'static str, Out<Obs>)> = vec![
            ("append+ci_mean", call(|| s_app.ci_mean(c)).map(|i| F::obs(&i))),
            ("extend+ci_mean", call(|| s_ext.ci_mean(c)).map(|i| F::obs(&i))),
            ("StatisticsOps::ci_mean", call(|| StatisticsOps::ci_mean(&s_iter, c)).map(|i| F::obs(&i))),
        ];
        if ci < one_shot_limit {
            styles.push(("Arithmetic::ci", call(|| Arithmetic::<F>::ci(c, &data)).map(|i| F::obs(&i))));
            styles.push(("MeanCI::ci", call(|| <Arithmetic<F> as MeanCI<F>>::ci(c, &data)).map(|i| F::obs(&i))));
            styles.push(("StatisticsOps::ci", call(|| <Arithmetic<F> as StatisticsOps<F>>::ci(c, &data)).map(|i| F::obs(&i))));
            if n <= 2000 {
                let sl: &[F] = &data[..];
                let arr: Vec<F> = sl.to_vec();
                styles.push(("Arithmetic::ci(Vec copy)", call(|| Arithmetic::<F>::ci(c, &arr)).map(|i| F::obs(&i))));
                // the same sample behind user-defined views whose iterators do not announce their length
                let lazy = crate::lazy::Lazy(arr.clone());
                let head = crate::lazy::HeadKnown(arr, n / 2);
                styles.push(("Arithmetic::ci(view of unknown length)", call(|| Arithmetic::<F>::ci(c, &lazy)).map(|i| F::obs(&i))));
                styles.push(("MeanCI::ci(view announcing half its length)", call(|| <Arithmetic<F> as MeanCI<F>>::ci(c, &head)).map(|i| F::obs(&i))));
                styles.push(("from_iter(view of unknown length)+ci_mean", call(|| Arithmetic::<F>::from_iter(&lazy).and_then(|s| s.ci_mean(c))).map(|i| F::obs(&i))));
            }
        }
        for (name, o) in styles.iter() {
            l.eval();
            let same = match (o, &base) {
                (Out::Ok(a), Out::Ok(b)) => a.bits() == b.bits(),
                (Out::Err(f, _), Out::Err(g, _)) => f == g,
                _ => false,
            };
            if !same {
                l.violation(format!("{}|differs-from-ci_mean|{}", name, F::TY), format!("{} does not return the same interval as from_iter + ci_mean", name), case(), json!({"kind": kind.name(), "level": level, name.to_string(): o.describe(), "from_iter+ci_mean": base.describe()}));
            }
        }
        let o = match &base {
            Out::Ok(o) => *o,
            other => {
                if dom {
                    l.violation(format!("Arithmetic::ci_mean|{}|valid-sample-rejected|{}", F::TY, other.class()), "a valid sample (n >= 2, finite, inside the conditioning domain) does not yield an interval".to_string(), case(), json!({"kind": kind.name(), "level": level, "outcome": other.describe(), "n": n}));
                } else {
                    l.count("outside-domain: no interval (left to C11)");
                }
                continue;
            }
        };
        // well-formedness / kind: judged for every sample
        let wf = o.kind == kind
            && match kind {
                Kind::Two => o.lo <= o.hi,
                Kind::Upper => o.hi == f64::INFINITY,
                Kind::Lower => o.lo == f64::NEG_INFINITY,
            };
        if !dom {
            l.count("outside-domain: well-formedness only");
            if !wf && !o.has_nan() {
                l.violation(format!("Arithmetic::ci_mean|{}|result-kind|{}", F::TY, kind.name()), "the result kind / unbounded side does not match the confidence".to_string(), case(), json!({"kind": kind.name(), "level": level, "observed": o.json()}));
            }
            continue;
        }
        if !wf {
            l.violation(format!("Arithmetic::ci_mean|{}|result-kind|{}", F::TY, kind.name()), "the result kind / unbounded side does not match the confidence (or lo > hi)".to_string(), case(), json!({"kind": kind.name(), "level": level, "observed": o.json()}));
            continue;
        }
        let e = expected_mean_ci(&st, F::U, kind, level);
        let (ratio, which, elo, ehi) = judge_bounds(&e, kind, o.lo, o.hi);
        l.max_with("bound_err_over_budget", ratio, || json!({"spec": spec, "kind": kind.name(), "level": level}));
        l.nontrivial(mix(&[hash_f64s(&data64[..n.min(64)]), n as u64, F::IS32 as u64, kind as u64, level.to_bits()]));
        l.count_s(format!("{}:{}:{}", F::TY, kind.name(), n_class(n)));
        l.count_s(format!("{}:family:{}", F::TY, fam));
        if n <= 9 {
            l.count_s(format!("n={}", n));
        }
        if level < 0.5 {
            l.count("level<1/2");
        }
        if level > 0.99 {
            l.count("level>0.99");
        }
        l.count_s(format!("critical-value:{}", which));
        if n <= 12 {
            // oracle audit (development aid, VERIF_TRACE): raw event for an independent recomputation
            sci_common::rt::trace(|| format!("C01 {} {} {} {:e} {:e} {:e} {:e} {:e} {}", F::TY, kind.name(), level, o.lo, o.hi, elo, ehi, ratio, data64.iter().map(|x| format!("{:e}", x)).collect::<Vec<_>>().join(",")));
        }
        if !(ratio <= 1.0) {
            let lv = if level < 0.5 { "L<1/2" } else { "L>=1/2" };
            l.violation(
                format!("Arithmetic::ci_mean|{}|{}|{}|bound-off-reference", F::TY, kind.name(), lv),
                format!("the {} bound(s) differ from xbar -/+ c*s/sqrt(n) by more than the rounding budget ({:.3e} x budget)", kind.name(), ratio),
                case(),
                json!({"n": n, "kind": kind.name(), "level": level, "observed": o.json(), "expected": [jf(elo), jf(ehi)], "candidates": e.cands.iter().map(|c| json!({"lo": c.0, "hi": c.1, "tol": c.2, "quantile": c.3, "c": c.4})).collect::<Vec<_>>(), "exact_mean": st.mean_f, "exact_sd": st.sd_f, "kappa": st.kappa, "ratio": ratio}),
            );
        }
        let cls = format!("{}:{}:{}", F::TY, kind.name(), n_class(n));
        if l.wants_sample(&cls) {
            l.sample(&cls, || json!({"spec": spec, "first_values": &data64[..n.min(6)], "n": n, "kind": kind.name(), "level": level, "observed": o.json(), "expected": [jf(elo), jf(ehi)], "quantile_used": which, "err_over_budget": ratio, "kappa": st.kappa}));
        }
    }
}

pub fn make_spec(seed: u64, i: u64, large: &[usize]) -> Spec {
    let mut r = Rng::from(&[seed, 0xc01, i]);
    let f32 = i % 2 == 1;
    let family: Family = REAL_FAMILIES[((i / 2) % REAL_FAMILIES.len() as u64) as usize];
    let n = sci_common::gen::pick_len(&mut r, i / 20, large);
    Spec { family, n, seed: r.next_u64(), f32, positive: false }
}

pub fn pick_confs(levels: &[f64], r: &mut Rng, per_kind: usize) -> Vec<(Kind, f64)> {
    let mut v = vec![];
    for kind in KINDS {
        // always one level below 1/2 and one above 0.99
        v.push((kind, *r.pick(&[0.001, 0.01, 0.1, 0.25, 0.3])));
        v.push((kind, *r.pick(&[0.999, 0.9999])));
        for _ in 0..per_kind {
            v.push((kind, *r.pick(levels)));
        }
    }
    v
}

pub fn run(run: &Arc<Run>) {
    let seed = run.cfg.seed;
    let quick = run.cfg.quick();
    let levels = level_grid(seed, 8);
    let large: Vec<usize> = if quick { vec![50_000, 99_999, 100_001, 130_000] } else { vec![99_999, 100_000, 100_001, 100_002, 110_000, 110_001, 110_002, 200_000, 60_000, 89_000] };
    run.set_rule(
        "seeded samples from 10 families (small ints, uniform, normal-like, log-uniform 2^±40, mixed sign near-cancelling, two-valued, near-constant with target conditioning, progressions, summation-adversarial, dyadic) x f32/f64 x lengths 2..9 (each), 10..200, 10^3, 10^4 and large n around the t->z switch; \
         every call style (Arithmetic::ci, MeanCI::ci, StatisticsOps::ci, from_iter+ci_mean, append*n, chunked extend) must agree bit-for-bit; bounds judged against xbar -/+ c s/sqrt(n) from exact BigInt statistics and the monitor's own t/normal quantiles with the rounding budget of DESIGN.md section 3; \
         non-trivial = n >= 2, variance > 0, inside the conditioning domain kappa*u <= 2^-12; distinct = (data, type, confidence) fingerprints.",
    );
    run.assume("Student-t / normal quantile oracles accurate to 1e-12 (self-test against mpmath tables at start); tol_P(nu, p) = 1e-10 + min(5e-8 sqrt(nu), 1e-16 nu/|p - 1/2|) conceded to the crate's quantile routine; either t or z accepted for 90 000 <= n-1 < 110 000");
    if let Some(case) = run.replay_case.as_ref().filter(|c| c["what"] != "order") {
        let spec: Spec = serde_json::from_value(case["spec"].clone()).expect("spec");
        let confs: Vec<(Kind, f64)> = serde_json::from_value(case["confs"].clone()).expect("confs");
        let mut l = run.local();
        if spec.f32 {
            judge_sample::<f32>(&spec, &confs, &|| case.clone(), &mut l)
        } else {
            judge_sample::<f64>(&spec, &confs, &|| case.clone(), &mut l)
        }
        run.absorb(l);
        return;
    }
    if let Some(case) = &run.replay_case {
        if case["what"] == "order" {
            let mut l = run.local();
            crate::props::purity::order_independence("mean/comparison CI", seed, case["i"].as_u64().unwrap(), &mut l);
            run.absorb(l);
            return;
        }
    }
    // hidden state: the interval must not depend on which confidence / sample was queried before
    run.par(run.cfg.by(150u64, 3000), |i, l| crate::props::purity::order_independence("mean/comparison CI", seed, i, l));
    let n = run.cfg.by(24_000u64, 600_000);
    let per_kind = run.cfg.by(2usize, 6);
    run.par(n, |i, l| {
        let spec = make_spec(seed, i, &large);
        let mut r = Rng::from(&[seed, 0xc01c, i]);
        let confs = if spec.n > 20_000 && !quick { levels.iter().flat_map(|lv| KINDS.iter().map(move |k| (*k, *lv))).collect() } else { pick_confs(&levels, &mut r, per_kind) };
        let case = || json!({"spec": spec, "confs": confs});
        if spec.f32 {
            judge_sample::<f32>(&spec, &confs, &case, l)
        } else {
            judge_sample::<f64>(&spec, &confs, &case, l)
        }
    });
    let mut req: Vec<String> = vec!["order-independence groups judged".into(), "level<1/2".into(), "level>0.99".into(), "critical-value:t".into(), "critical-value:z".into()];
    for n in 2..=9 {
        req.push(format!("n={}", n));
    }
    for ty in ["f32", "f64"] {
        for f in REAL_FAMILIES {
            req.push(format!("{}:family:{}", ty, f.name()));
        }
        for k in KINDS {
            for c in ["n=2..9", "n=10..200", "n=201..2e4", "n~1e5(switch band)", "n>1.1e5(normal branch)"] {
                req.push(format!("{}:{}:{}", ty, k.name(), c));
            }
        }
    }
    req.push("sample scaled to the top of the exponent range".to_string());
    let r: Vec<&str> = req.iter().map(|s| s.as_str()).collect();
    run.require(&r);
}
