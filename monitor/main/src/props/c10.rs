//! C10 — confidence kind and level act coherently on every interval producer.
use crate::api::{call, conf, Obs, Out};
use crate::model::{E, M};
use crate::props::fl::{conv, Fl};
use sci_common::exact::{ulps_apart32, ulps_apart64};
use sci_common::gen::{level_grid, sample, Family, Kind, Spec, KINDS, POSITIVE_FAMILIES, REAL_FAMILIES};
use sci_common::rt::{mix, Local, Rng, Run};
use serde::{Deserialize, Serialize};
use serde_json::{json, Value};
use stats_ci::comparison::{Paired, Unpaired};
use stats_ci::mean::{Arithmetic, Geometric, Harmonic};
use stats_ci::{proportion, quantile, Interval, StatisticsOps};
use std::sync::Arc;

#[derive(Clone, Copy, Debug, Serialize, Deserialize, PartialEq)]
pub enum Prod {
    Arithmetic,
    Geometric,
    Harmonic,
    Paired,
    Unpaired,
    Proportion,
    Wald,
    QuantileIndices,
    QuantileElements,
}
const PRODS: [Prod; 9] = [Prod::Arithmetic, Prod::Geometric, Prod::Harmonic, Prod::Paired, Prod::Unpaired, Prod::Proportion, Prod::Wald, Prod::QuantileIndices, Prod::QuantileElements];

#[derive(Clone, Debug, Serialize, Deserialize)]
pub struct Case {
    pub prod: Prod,
    pub a: Spec,
    pub b: Spec,
    pub n: usize,
    pub k: usize,
    pub q: f64,
}

fn dyadic(level: f64) -> bool {
    // 2L-1 and 1-(1-L')/2 are exact when L is a multiple of 2^-20 (all grid dyadics are) or when L = 1 - 2^-j
    // with j <= 50 (then 1-L, 2L-1 = 1-2^-(j-1), (1-L')/2 and (1+L')/2 are all representable)
    let tail = 1.0 - level;
    (level * 1048576.0).fract() == 0.0 || (tail >= 8.9e-16 && tail.log2().fract() == 0.0 && 1.0 - tail == level)
}

/// Far-tail levels (all valid confidence levels: anything strictly inside (0,1) is): 1 - 2^-j, for which the
/// 2L-1 identity is exact, decimal tails down to 1e-10, and small levels. A clamp, a table or an unpolished
/// quantile that only matters beyond the customary range shows up here and nowhere on [0.001, 0.9999].
pub fn far_tail_levels() -> Vec<f64> {
    let mut v = vec![];
    for j in [14, 17, 24, 30, 31, 34, 40, 47] {
        v.push(1.0 - (2.0f64).powi(-j));
    }
    for t in [1e-5, 1e-6, 1e-7, 1e-8, 4e-9, 1e-9, 1e-10] {
        v.push(1.0 - t);
    }
    for t in [1e-4, 1e-6, 1e-9, 1e-12] {
        v.push(t);
    }
    v
}

fn to_interval(o: &Obs) -> Interval<f64> {
    match o.kind {
        Kind::Two => Interval::TwoSided(o.lo, o.hi),
        Kind::Upper => Interval::UpperOneSided(o.lo),
        Kind::Lower => Interval::LowerOneSided(o.hi),
    }
}

struct Producer<'a> {
    name: String,
    /// the interval at (kind, level); for proportions the natural far end is reported as a bound
    ci: Box<dyn Fn(Kind, f64) -> Out<Obs> + 'a>,
    /// point estimate and slack (absolute) for containment
    estimate: Option<(f64, f64)>,
    /// proportions: far ends are 1 and 0 instead of infinities
    unit_far_ends: bool,
    /// integer ranks: compare exactly, containment within one position
    ranks: bool,
    /// relative tolerance on half-width for the 2L-1 identity at non-dyadic levels
    rel: f64,
    is32: bool,
}

fn judge_producer(p: &Producer, levels: &[f64], case: &dyn Fn() -> Value, l: &mut Local) {
    let pname = p.name.as_str();
    let mut sorted: Vec<f64> = levels.to_vec();
    sorted.sort_by(|a, b| a.partial_cmp(b).unwrap());
    sorted.dedup();
    // table[kind][level index]
    let mut table: Vec<Vec<Option<Obs>>> = vec![];
    for kind in KINDS {
        let mut row = vec![];
        for &lv in sorted.iter() {
            l.eval();
            match (p.ci)(kind, lv) {
                Out::Ok(o) if !o.has_nan() => row.push(Some(o)),
                Out::Ok(_) => {
                    l.count("NaN interval (left to C11)");
                    row.push(None)
                }
                _ => {
                    l.count("no interval at this confidence (left to C02/C03/C11)");
                    row.push(None)
                }
            }
        }
        table.push(row);
    }
    // the effective kind of a proportion interval: two bounds with a natural far end
    let far_ok = |kind: Kind, o: &Obs| -> bool {
        if p.unit_far_ends {
            o.kind == Kind::Two
                && match kind {
                    Kind::Two => true,
                    Kind::Upper => o.hi == 1.0,
                    Kind::Lower => o.lo == 0.0,
                }
        } else {
            o.kind == kind
                && match kind {
                    // (a finite bound may overflow to an infinity for extreme critical values: still an enclosure)
                    Kind::Two => o.lo <= o.hi,
                    Kind::Upper => o.hi == f64::INFINITY,
                    Kind::Lower => o.lo == f64::NEG_INFINITY,
                }
        }
    };
    // set model of an interval as the property sees it (unit far ends are genuine bounds)
    let model = |kind: Kind, o: &Obs| -> M<f64> {
        if p.unit_far_ends {
            M { lo: E::V(o.lo), hi: E::V(o.hi) }
        } else {
            match kind {
                Kind::Two => M { lo: E::V(o.lo), hi: E::V(o.hi) },
                Kind::Upper => M { lo: E::V(o.lo), hi: E::PosInf },
                Kind::Lower => M { lo: E::NegInf, hi: E::V(o.hi) },
            }
        }
    };
    let ulps = |a: f64, b: f64| -> u64 {
        if a == b {
            0
        } else if p.is32 {
            ulps_apart32(a as f32, b as f32)
        } else {
            ulps_apart64(a, b)
        }
    };
    for (ki, kind) in KINDS.iter().enumerate() {
        for (li, &lv) in sorted.iter().enumerate() {
            let o = match &table[ki][li] {
                Some(o) => *o,
                None => continue,
            };
            l.nontrivial(mix(&[sci_common::rt::hash_str(pname), *kind as u64, lv.to_bits(), o.lo.to_bits(), o.hi.to_bits()]));
            // (d) kind of the result
            l.eval();
            l.count("result kind judged");
            if !far_ok(*kind, &o) {
                l.violation(format!("{}|result-kind|{}", pname, kind.name()), "the kind of the result (or its natural far end) does not match the kind of the confidence".to_string(), case(), json!({"kind": kind.name(), "level": lv, "observed": o.json()}));
                continue;
            }
            // (c) point estimate contained
            if let Some((est, slack)) = p.estimate {
                if *kind == Kind::Two || lv >= 0.5 {
                    l.eval();
                    l.count("point estimate containment judged");
                    let inside = if p.ranks {
                        // rank of the sample quantile to within one position
                        (*kind == Kind::Lower || o.lo <= est) && (*kind == Kind::Upper || o.hi >= est - 1.0)
                    } else {
                        let lo_ok = *kind == Kind::Lower && !p.unit_far_ends || o.lo <= est + slack || ulps(o.lo, est) <= 2;
                        let hi_ok = *kind == Kind::Upper && !p.unit_far_ends || o.hi >= est - slack || ulps(o.hi, est) <= 2;
                        lo_ok && hi_ok
                    };
                    if !inside {
                        l.violation(format!("{}|point-estimate-not-contained|{}", pname, kind.name()), "the interval does not contain the point estimate".to_string(), case(), json!({"kind": kind.name(), "level": lv, "observed": o.json(), "point_estimate": est}));
                    }
                }
            }
            // (a) one-sided(L) finite bound = two-sided(2L-1) bound, L > 1/2
            if *kind != Kind::Two && lv > 0.5 {
                let l2 = 2.0 * lv - 1.0;
                if l2 > 0.0 && l2 < 1.0 {
                    if let Out::Ok(t) = (p.ci)(Kind::Two, l2) {
                        if !t.has_nan() {
                            l.eval();
                            l.count("2L-1 identity judged");
                            let (one, two) = if *kind == Kind::Upper { (o.lo, t.lo) } else { (o.hi, t.hi) };
                            let hw = 0.5 * (t.hi - t.lo).abs();
                            let ok = if dyadic(lv) || p.ranks {
                                if dyadic(lv) {
                                    l.count("2L-1 identity judged bit-exactly (dyadic level)");
                                }
                                one == two
                            } else {
                                one == two || (one - two).abs() <= p.rel * hw + 4.0 * f64::EPSILON * two.abs() * if p.is32 { 5.4e8 } else { 1.0 }
                            };
                            if !ok {
                                // rank producers: excuse a flip when p*n sits on an integer (counted)
                                if p.ranks && !dyadic(lv) && (one - two).abs() <= 1.0 {
                                    l.count("ambiguous rank at non-dyadic level (excused)");
                                } else {
                                    l.violation(format!("{}|one-sided-vs-two-sided(2L-1)|{}", pname, kind.name()), "the finite bound of the one-sided interval at level L differs from the corresponding bound of the two-sided interval at level 2L-1".to_string(), case(), json!({"kind": kind.name(), "L": lv, "one_sided": o.json(), "two_sided(2L-1)": t.json(), "dyadic_level": dyadic(lv)}));
                                }
                            }
                        }
                    }
                }
            }
            // (b) nesting in the level
            for lj in (li + 1)..sorted.len() {
                let o2 = match &table[ki][lj] {
                    Some(o) => *o,
                    None => continue,
                };
                let (t1, t2) = (kind.target(lv), kind.target(sorted[lj]));
                let gap = (t2 - t1).abs();
                // in the far tails a tiny step in probability is a large step of the quantile: pairs whose tail
                // probabilities differ by a factor of two or more are judged however close they are
                let tail_ratio = if t1 >= 0.5 { (1.0 - t1) / (1.0 - t2) } else if t2 <= 0.5 { t2 / t1 } else { 1.0 };
                if gap < 1e-3 && tail_ratio >= 2.0 {
                    l.count("far-tail level pair judged (tail probabilities a factor >= 2 apart)");
                }
                if gap < 1e-3 && tail_ratio < 2.0 {
                    l.count("level pair closer than 1e-3 in probability (skipped)");
                    continue;
                }
                l.eval();
                l.count("nesting judged");
                let m1 = model(*kind, &o);
                let m2 = model(*kind, &o2);
                let by_model = m2.includes(&m1);
                let by_crate = if p.unit_far_ends { Interval::TwoSided(o2.lo, o2.hi).includes(&Interval::TwoSided(o.lo, o.hi)) } else { to_interval(&o2).includes(&to_interval(&o)) };
                if !by_model || !by_crate {
                    l.violation(
                        format!("{}|not-nested-in-level|{}", pname, kind.name()),
                        "raising the level shrinks the interval: CI(L1) is not included in CI(L2) for L1 < L2".to_string(),
                        case(),
                        json!({"kind": kind.name(), "L1": lv, "CI(L1)": o.json(), "L2": sorted[lj], "CI(L2)": o2.json(), "includes_by_model": by_model, "includes_by_crate": by_crate}),
                    );
                }
            }
        }
    }
    let cls = pname.to_string();
    if l.wants_sample(&cls) {
        let o1 = (p.ci)(Kind::Upper, 0.875);
        let o2 = (p.ci)(Kind::Two, 0.75);
        l.sample(&cls, || json!({"producer": pname, "case": case(), "upper(0.875)": o1.describe(), "two-sided(0.75)": o2.describe(), "point_estimate": p.estimate.map(|e| e.0)}));
    }
}

fn rank_obs(i: &Interval<usize>) -> Obs {
    match i {
        Interval::TwoSided(a, b) => Obs { kind: Kind::Two, lo: *a as f64, hi: *b as f64 },
        Interval::UpperOneSided(a) => Obs { kind: Kind::Upper, lo: *a as f64, hi: f64::INFINITY },
        Interval::LowerOneSided(b) => Obs { kind: Kind::Lower, lo: f64::NEG_INFINITY, hi: *b as f64 },
    }
}

fn judge<F: Fl>(c: &Case, levels: &[f64], l: &mut Local) {
    let case = || serde_json::to_value(c).unwrap();
    let a64 = sample(&c.a);
    let a: Vec<F> = conv(&a64);
    let name = |s: &str| format!("{}<{}>", s, F::TY);
    let u = F::U;
    match c.prod {
        Prod::Arithmetic => {
            let st = Arithmetic::<F>::from_iter(&a).unwrap();
            let est = st.sample_mean().f();
            let p = Producer { name: name("Arithmetic"), ci: Box::new(move |k, lv| call(|| st.ci_mean(conf(k, lv))).map(|i| F::obs(&i))), estimate: Some((est, 2.0 * u * est.abs())), unit_far_ends: false, ranks: false, rel: 1e-12, is32: F::IS32 };
            judge_producer(&p, levels, &case, l);
        }
        Prod::Geometric => {
            let st = Geometric::<F>::from_iter(&a).unwrap();
            let est = st.sample_mean().f();
            let p = Producer { name: name("Geometric"), ci: Box::new(move |k, lv| call(|| st.ci_mean(conf(k, lv))).map(|i| F::obs(&i))), estimate: Some((est, 4.0 * u * est.abs())), unit_far_ends: false, ranks: false, rel: 1e-12, is32: F::IS32 };
            judge_producer(&p, levels, &case, l);
        }
        Prod::Harmonic => {
            let st = Harmonic::<F>::from_iter(&a).unwrap();
            let recs: Vec<F> = a.iter().map(|x| F::one() / *x).collect();
            let ar = Arithmetic::<F>::from_iter(&recs).unwrap();
            let est = st.sample_mean().f();
            // only inside the positivity proviso: the reciprocal-space bound used must be > 0
            let ci = move |k: Kind, lv: f64| -> Out<Obs> {
                let rec = call(|| ar.ci_mean(conf(k.flipped(), lv))).map(|i| F::obs(&i));
                let pos = match &rec {
                    Out::Ok(r) => match k {
                        Kind::Two => r.lo > 0.0,
                        Kind::Upper => r.hi > 0.0,
                        Kind::Lower => r.lo > 0.0,
                    },
                    _ => false,
                };
                if !pos {
                    // outside the proviso no interval is owed; but a two-sided interval that is returned all
                    // the same is an interval like any other (well-formed, around the estimate, nested)
                    if k == Kind::Two {
                        if let Out::Ok(o) = call(|| st.ci_mean(conf(k, lv))).map(|i| F::obs(&i)) {
                            return Out::Ok(o);
                        }
                    }
                    return Out::Err(crate::api::ErrFam::StringError, "outside the positivity proviso".into());
                }
                call(|| st.ci_mean(conf(k, lv))).map(|i| F::obs(&i))
            };
            let p = Producer { name: name("Harmonic"), ci: Box::new(ci), estimate: Some((est, 4.0 * u * est.abs())), unit_far_ends: false, ranks: false, rel: 1e-12, is32: F::IS32 };
            judge_producer(&p, levels, &case, l);
        }
        Prod::Paired => {
            let mut bs = c.b.clone();
            bs.n = c.a.n;
            if c.a.family == Family::Constant {
                bs.family = Family::Constant; // constant difference
            }
            let b: Vec<F> = conv(&sample(&bs));
            let mut st = Paired::<F>::default();
            st.extend(&a, &b).unwrap();
            let est = st.sample_mean().f();
            let p = Producer { name: name("Paired"), ci: Box::new(move |k, lv| call(|| st.ci_mean(conf(k, lv))).map(|i| F::obs(&i))), estimate: Some((est, 2.0 * u * est.abs())), unit_far_ends: false, ranks: false, rel: 1e-12, is32: F::IS32 };
            judge_producer(&p, levels, &case, l);
        }
        Prod::Unpaired => {
            let b: Vec<F> = conv(&sample(&c.b));
            let st = Unpaired::<F>::from_iter(&a, &b).unwrap();
            let (ma, mb) = (st.stats_a().sample_mean(), st.stats_b().sample_mean());
            let est = (ma - mb).f();
            let slack = 2.0 * u * (ma.f().abs() + mb.f().abs());
            let p = Producer { name: name("Unpaired"), ci: Box::new(move |k, lv| call(|| st.ci_mean(conf(k, lv))).map(|i| F::obs(&i))), estimate: Some((est, slack)), unit_far_ends: false, ranks: false, rel: 1e-12, is32: F::IS32 };
            judge_producer(&p, levels, &case, l);
        }
        Prod::Proportion | Prod::Wald => {
            let (n, k) = (c.n, c.k);
            let wald = c.prod == Prod::Wald;
            // the Wilson interval of the counts through one of its front-ends (the b-spec is unused here: its seed picks)
            let front = if wald { 0 } else { (c.b.seed % 4) as usize };
            let fname = ["proportion::ci", "proportion::ci_wilson_ratio", "proportion::Stats::ci", "proportion::ci_true"][front];
            l.count_s(format!("proportion front-end:{}", fname));
            let data: Vec<bool> = if front == 3 { (0..n).map(|i| (i * k) / n != ((i + 1) * k) / n).collect() } else { vec![] };
            let p = Producer {
                name: if wald { "proportion::ci_z_normal".into() } else { fname.into() },
                ci: Box::new(move |kk, lv| {
                    let cf = conf(kk, lv);
                    if wald {
                        call(|| proportion::ci_z_normal(cf, n, k))
                    } else {
                        match front {
                            0 => call(|| proportion::ci(cf, n, k)),
                            1 => call(|| proportion::ci_wilson_ratio(cf, n, k as f64 / n as f64)),
                            2 => call(|| proportion::Stats::new(n, k).ci(cf)),
                            _ => call(|| proportion::ci_true(cf, &data)),
                        }
                    }
                    .map(|i| Obs::of64(&i))
                }),
                estimate: Some((k as f64 / n as f64, 1e-15)),
                unit_far_ends: true,
                ranks: false,
                rel: 1e-12,
                is32: false,
            };
            judge_producer(&p, levels, &case, l);
        }
        Prod::QuantileIndices => {
            let (n, q) = (c.n, c.q);
            let k = (q * n as f64).round();
            let p = Producer { name: "quantile::ci_indices".into(), ci: Box::new(move |kk, lv| call(|| quantile::ci_indices(conf(kk, lv), n, q)).map(|i| rank_obs(&i))), estimate: Some((k, 0.0)), unit_far_ends: false, ranks: true, rel: 0.0, is32: false };
            judge_producer(&p, levels, &case, l);
        }
        Prod::QuantileElements => {
            // distinct, strictly increasing data so that element intervals mirror the ranks
            // one input in five is larger than any fixed buffer or sort/selection threshold one might pick
            // (1024, 2048, 4096): 2049 .. 5048 observations
            let big = c.a.seed % 5 == 0;
            let n = if big { 2049 + (c.a.seed / 5 % 3000) as usize } else { c.n.min(400) };
            let q = if big { c.q.clamp(8.0 / n as f64, 1.0 - 8.0 / n as f64) } else { c.q };
            if big {
                l.count("quantile::ci on more than 2048 observations");
            }
            let data: Vec<f64> = (0..n).map(|i| i as f64 * 0.5 - 3.0).collect();
            let mut shuffled = data.clone();
            Rng::new(c.a.seed).shuffle(&mut shuffled);
            let k = (q * n as f64).round();
            let est = data[(k as usize).min(n - 1)];
            // containment within one position = within one data step (0.5)
            let p = Producer { name: "quantile::ci".into(), ci: Box::new(move |kk, lv| call(|| quantile::ci(conf(kk, lv), &shuffled, q)).map(|i| Obs::of64(&i))), estimate: Some((est, 0.5)), unit_far_ends: false, ranks: false, rel: 0.0, is32: false };
            // for element intervals the 2L-1 identity must be exact too
            let p = Producer { rel: 0.0, ..p };
            judge_producer(&p, levels, &case, l);
        }
    }
}

fn judge_ratio_n(n: usize, l: &mut Local) {
    for k in 2..=n - 2 {
        let est = k as f64 / n as f64;
        for (kind, lv) in [(Kind::Two, 0.001), (Kind::Two, 0.3), (Kind::Upper, 0.5), (Kind::Lower, 0.500000953674316406250)] {
            l.eval();
            l.count("ratio front-end containment judged");
            match call(|| proportion::ci_wilson_ratio(conf(kind, lv), n, est)).map(|i| Obs::of64(&i)) {
                Out::Ok(o) => {
                    if !(o.lo <= est + 1e-15 && est - 1e-15 <= o.hi) {
                        l.violation(format!("proportion::ci_wilson_ratio|point-estimate-not-contained|{}", kind.name()), "the interval of the ratio front-end does not contain the proportion it was given".to_string(), json!({"what": "ratio", "n": n, "k": k}), json!({"n": n, "k": k, "ratio": est, "kind": kind.name(), "level": lv, "observed": o.json()}));
                    }
                }
                other => l.violation(format!("proportion::ci_wilson_ratio|admissible-ratio-rejected|{}", other.class()), "the ratio front-end rejects an admissible proportion".to_string(), json!({"what": "ratio", "n": n, "k": k}), json!({"n": n, "k": k, "ratio": est, "outcome": other.describe()})),
            }
        }
    }
    l.nontrivial(mix(&[n as u64, 0x7a710]));
}

fn make_case(seed: u64, i: u64) -> Case {
    let mut r = Rng::from(&[seed, 0xc10, i]);
    let f32 = i % 2 == 1;
    let prod = PRODS[(i / 2 % 9) as usize];
    let positive = matches!(prod, Prod::Geometric | Prod::Harmonic);
    let fam = |r: &mut Rng| -> Family {
        if positive {
            *r.pick(&POSITIVE_FAMILIES)
        } else {
            *r.pick(&REAL_FAMILIES)
        }
    };
    // every 45th input lies beyond the t -> z switch (n > 100 001): the normal branch is a separate code path
    let na = if i % 45 == 44 { 100_200 + (i % 7) as usize } else { sci_common::gen::pick_len(&mut r, i / 18, &[5000]) };
    let nb = sci_common::gen::pick_len(&mut r, i / 18 + 5, &[700]);
    let mut a = Spec { family: fam(&mut r), n: na, seed: r.next_u64(), f32, positive };
    // one block of inputs in eight (all producers, f32 and f64 alike) uses a constant sample (zero variance: degenerate interval, but the
    // kind of the result must still follow the confidence)
    if (i / 18) % 8 == 3 && matches!(prod, Prod::Arithmetic | Prod::Paired | Prod::Geometric | Prod::Harmonic) {
        a.family = Family::Constant;
        a.n = na.min(50);
    }
    let b = Spec { family: fam(&mut r), n: nb, seed: r.next_u64(), f32, positive };
    let (n, k, q) = match prod {
        Prod::Proportion => {
            let n = r.range(4, 3000) as usize;
            (n, r.range(2, n as i64 - 2) as usize, 0.0)
        }
        Prod::Wald => {
            let n = r.range(20, 3000) as usize;
            (n, r.range(10, n as i64 - 10) as usize, 0.0)
        }
        Prod::QuantileIndices | Prod::QuantileElements => {
            let n = r.range(4, 2000) as usize;
            // admissible q: 2 <= round(q n) <= n-2
            let k = r.range(2, n as i64 - 2) as f64;
            (n, 0, ((k + r.uniform(-0.4, 0.4)) / n as f64).clamp(1e-6, 1.0 - 1e-6))
        }
        _ => (0, 0, 0.0),
    };
    Case { prod, a, b, n, k, q }
}

pub fn run(run: &Arc<Run>) {
    let seed = run.cfg.seed;
    let mut levels = level_grid(seed, 8);
    levels.extend(far_tail_levels());
    run.set_rule(
        "9 producers (Arithmetic, Geometric, Harmonic (inside the positivity proviso), Paired, Unpaired for f32/f64; proportion::ci and its front-ends ci_wilson_ratio / Stats::ci / ci_true in rotation, ci_z_normal, quantile::ci_indices, quantile::ci) x seeded admissible inputs x the whole level grid (28 levels incl. dyadic ones, levels < 1/2 and two seeded tail levels) x 3 kinds: \
         (a) one-sided(L) bound = two-sided(2L-1) bound (bit-exact at dyadic L, 1e-12 of the half-width otherwise; ranks exactly), (b) CI(L1) included in CI(L2) for all ordered level pairs at least 1e-3 apart in probability, judged by the crate's includes() and by the extended-real model on the raw bounds, \
         (c) two-sided intervals and one-sided ones at L >= 1/2 contain the point estimate (ranks: within one position), (d) result kind / natural far ends match the confidence. distinct = (producer, confidence, interval) fingerprints.",
    );
    if let Some(case) = run.replay_case.as_ref().filter(|c| c["what"] == "order") {
        let mut l = run.local();
        crate::props::purity::order_independence("kind/level coherence", seed, case["i"].as_u64().unwrap(), &mut l);
        run.absorb(l);
        return;
    }
    if let Some(case) = run.replay_case.as_ref().filter(|c| c["what"] == "ratio") {
        let mut l = run.local();
        judge_ratio_n(case["n"].as_u64().unwrap() as usize, &mut l);
        run.absorb(l);
        return;
    }
    if let Some(case) = &run.replay_case {
        let c: Case = serde_json::from_value(case.clone()).expect("case");
        let mut l = run.local();
        if c.a.f32 {
            judge::<f32>(&c, &levels, &mut l)
        } else {
            judge::<f64>(&c, &levels, &mut l)
        }
        run.absorb(l);
        return;
    }
    // the same query must give the same interval whatever was asked before (kinds at one level
    // back to back, states whose dof share an integer part, ...)
    run.par(run.cfg.by(150u64, 3000), |i, l| crate::props::purity::order_independence("kind/level coherence", seed, i, l));
    // ratio front-end: the interval at any two-sided level (and at one-sided levels >= 1/2) contains the
    // proportion it was given, for every admissible (n, k) of a range (k/n*n need not give back k exactly)
    let rmax: u64 = run.cfg.by(400, 2500);
    run.par(rmax - 3, |i, l| judge_ratio_n(4 + i as usize, l));
    let n = run.cfg.by(6_000u64, 600_000);
    run.par(n, |i, l| {
        let c = make_case(seed, i);
        l.count_s(format!("producer:{:?}", c.prod));
        if c.a.family == Family::Constant {
            l.count_s(format!("constant (zero-variance) input:{:?}", c.prod));
            l.count("constant (zero-variance) input");
        }
        if c.a.n > 100_001 {
            l.count("input beyond the t->z switch (n > 100 001)");
        }
        if c.a.f32 {
            judge::<f32>(&c, &levels, l)
        } else {
            judge::<f64>(&c, &levels, l)
        }
    });
    let mut req: Vec<String> = vec!["result kind judged".into(), "point estimate containment judged".into(), "2L-1 identity judged".into(), "2L-1 identity judged bit-exactly (dyadic level)".into(), "nesting judged".into(), "input beyond the t->z switch (n > 100 001)".into(), "constant (zero-variance) input".into(), "constant (zero-variance) input:Arithmetic".into(), "constant (zero-variance) input:Paired".into(), "order-independence groups judged".into(), "ratio front-end containment judged".into(), "quantile::ci on more than 2048 observations".into(), "proportion front-end:proportion::ci".into(), "proportion front-end:proportion::ci_wilson_ratio".into(), "proportion front-end:proportion::Stats::ci".into(), "proportion front-end:proportion::ci_true".into()];
    for p in PRODS {
        req.push(format!("producer:{:?}", p));
    }
    let r: Vec<&str> = req.iter().map(|s| s.as_str()).collect();
    run.require(&r);
    let _ = StatisticsOps::<f64>::sample_count(&Arithmetic::<f64>::new());
}
