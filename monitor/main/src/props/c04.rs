//! C04 — paired CI = mean CI of differences; unpaired CI = documented Welch-type interval.
use crate::api::{call, conf, ErrFam, Obs, Out};
use crate::props::budget::{budget, crit, in_domain, K_S, U64};
use crate::props::fl::{conv, Fl};
use sci_common::exact::{stats_f64, ExactStats};
use sci_common::gen::{level_grid, sample, Family, Kind, Spec, KINDS, REAL_FAMILIES};
use sci_common::rt::{hash_f64s, jf, mix, Local, Rng, Run};
use serde::{Deserialize, Serialize};
use serde_json::json;
use stats_ci::comparison::{Paired, Unpaired};
use stats_ci::error::CIError;
use stats_ci::mean::Arithmetic;
use stats_ci::StatisticsOps;
use std::sync::Arc;

#[derive(Clone, Debug, Serialize, Deserialize)]
pub struct Case {
    pub a: Spec,
    pub b: Spec,
    pub confs: Vec<(Kind, f64)>,
    /// both samples are multiplied by 2^scale_log2 (exactly): extreme but finite magnitudes
    #[serde(default)]
    pub scale_log2: i32,
}

fn scaled(v: Vec<f64>, k: i32) -> Vec<f64> {
    if k == 0 {
        return v;
    }
    let f = 2f64.powi(k);
    v.into_iter().map(|x| x * f).collect()
}

fn same(a: &Out<Obs>, b: &Out<Obs>) -> bool {
    match (a, b) {
        (Out::Ok(x), Out::Ok(y)) => x.bits() == y.bits(),
        (Out::Err(f, _), Out::Err(g, _)) => f == g,
        _ => false,
    }
}

// ------------------------------------------------------------------------------ paired

fn judge_paired<F: Fl>(c: &Case, l: &mut Local) {
    let a: Vec<F> = conv(&sample(&c.a));
    let mut bspec = c.b.clone();
    bspec.n = c.a.n;
    let b: Vec<F> = conv(&sample(&bspec));
    let n = a.len();
    let d: Vec<F> = a.iter().zip(b.iter()).map(|(x, y)| *x - *y).collect();
    let case = || serde_json::to_value(c).unwrap();
    // states through every feeding style
    let mut s_ext = Paired::<F>::default();
    let r1 = s_ext.extend(&a, &b);
    let tuples: Vec<(F, F)> = a.iter().cloned().zip(b.iter().cloned()).collect();
    let mut s_tup = Paired::<F>::default();
    let r2 = s_tup.extend_tuple(&tuples);
    let mut s_app = Paired::<F>::default();
    for (x, y) in tuples.iter() {
        let _ = s_app.append_pair(*x, *y);
    }
    let mut s_mix = Paired::<F>::default();
    {
        // half by sequences, the rest pair by pair
        let h = n / 2;
        let _ = s_mix.extend(&a[..h].to_vec(), &b[..h].to_vec());
        for i in h..n {
            let _ = s_mix.append_pair(a[i], b[i]);
        }
    }
    l.eval();
    if r1.is_err() || r2.is_err() {
        l.violation(format!("Paired::extend|{}|equal-lengths-rejected", F::TY), "equal-length finite samples rejected".to_string(), case(), json!({"extend": format!("{:?}", r1), "extend_tuple": format!("{:?}", r2)}));
        return;
    }
    let reference = Arithmetic::<F>::from_iter(&d).unwrap();
    l.eval();
    let count_ok = s_ext.sample_count() == n && s_tup.sample_count() == n && s_app.sample_count() == n && s_mix.sample_count() == n;
    let mean_ok = [&s_ext, &s_tup, &s_app, &s_mix].iter().all(|s| s.sample_mean().f().to_bits() == reference.sample_mean().f().to_bits() || (s.sample_mean().f() == reference.sample_mean().f()));
    if !count_ok || !mean_ok {
        l.violation(
            format!("Paired|{}|sample_mean/count-not-those-of-differences", F::TY),
            "sample_mean / sample_count of a paired state are not those of the differences a_i - b_i".to_string(),
            case(),
            json!({"n": n, "counts": [s_ext.sample_count(), s_tup.sample_count(), s_app.sample_count(), s_mix.sample_count()], "means": [s_ext.sample_mean().f(), s_tup.sample_mean().f(), s_app.sample_mean().f(), s_mix.sample_mean().f()], "mean_of_differences": reference.sample_mean().f()}),
        );
    }
    for &(kind, level) in c.confs.iter() {
        let cf = conf(kind, level);
        let want = call(|| Arithmetic::<F>::ci(cf, &d)).map(|i| F::obs(&i));
        let styles: Vec<(&'static str, Out<Obs>)> = vec![
            ("Paired::ci", call(|| Paired::<F>::ci(cf, &a, &b)).map(|i| F::obs(&i))),
            ("Paired::extend+ci_mean", call(|| s_ext.ci_mean(cf)).map(|i| F::obs(&i))),
            ("Paired::extend_tuple+ci_mean", call(|| s_tup.ci_mean(cf)).map(|i| F::obs(&i))),
            ("Paired::append_pair+ci_mean", call(|| s_app.ci_mean(cf)).map(|i| F::obs(&i))),
            ("Paired::extend+append_pair+ci_mean", call(|| s_mix.ci_mean(cf)).map(|i| F::obs(&i))),
            // the same pairs in columns with missing entries (iterators that announce more slots than values,
            // and a different number of slots for the two columns) and behind views of unknown length
            ("Paired::ci(columns with holes)", call(|| Paired::<F>::ci(cf, &crate::lazy::Sparse::of(&a, 2), &crate::lazy::Sparse::of(&b, 1))).map(|i| F::obs(&i))),
            ("Paired::ci(views of unknown length)", call(|| Paired::<F>::ci(cf, &crate::lazy::Lazy(a.clone()), &crate::lazy::HeadKnown(b.clone(), n / 2))).map(|i| F::obs(&i))),
        ];
        for (name, got) in styles {
            l.eval();
            l.count("paired style compared");
            if !same(&got, &want) {
                l.violation(
                    format!("{}|{}|differs-from-mean-CI-of-differences", name, F::TY),
                    format!("{} is not exactly the arithmetic-mean interval of the differences a_i - b_i", name),
                    case(),
                    json!({"n": n, "kind": kind.name(), "level": level, "observed": got.describe(), "Arithmetic::ci(differences)": want.describe(), "first_differences": d.iter().take(4).map(|x| x.f()).collect::<Vec<_>>()}),
                );
            }
        }
        if let Out::Ok(o) = &want {
            if !o.has_nan() {
                l.nontrivial(mix(&[hash_f64s(&d.iter().take(32).map(|x| x.f()).collect::<Vec<_>>()), n as u64, kind as u64, level.to_bits(), 41]));
            }
        }
    }
    // one state fed in segments through the three feeding styles in rotation and queried (same confidence) after
    // every segment: each answer is the mean interval of the differences delivered so far, whatever was asked before
    if let Some(&(kind, level)) = c.confs.first() {
        let cf = conf(kind, level);
        let mut st = Paired::<F>::default();
        let segs = 3 + n % 3;
        let rot = hash_f64s(&[n as f64, level]) as usize;
        let mut done = 0usize;
        for j in 0..segs {
            let end = if j + 1 == segs { n } else { (n * (j + 1)) / segs };
            match (j + rot) % 3 {
                0 => {
                    let _ = st.extend(&a[done..end].to_vec(), &b[done..end].to_vec());
                }
                1 => {
                    let _ = st.extend_tuple(&tuples[done..end].to_vec());
                }
                _ => {
                    for i in done..end {
                        let _ = st.append_pair(a[i], b[i]);
                    }
                }
            }
            done = end;
            let style = ["extend", "extend_tuple", "append_pair"][(j + rot) % 3];
            let got = call(|| st.ci_mean(cf)).map(|i| F::obs(&i));
            let dpre: Vec<F> = d[..done].to_vec();
            let want = call(|| Arithmetic::<F>::ci(cf, &dpre)).map(|i| F::obs(&i));
            l.eval();
            l.count("paired state queried between feeding steps");
            if !same(&got, &want) || st.sample_count() != done {
                l.violation(
                    format!("Paired(fed in segments, queried in between)|{}|differs-from-mean-CI-of-differences", F::TY),
                    "a paired state fed in segments (extend / extend_tuple / append_pair in rotation) and queried after each segment does not answer with the arithmetic-mean interval of the differences delivered so far".to_string(),
                    case(),
                    json!({"n": n, "segment": j, "style": style, "pairs_delivered": done, "sample_count": st.sample_count(), "kind": kind.name(), "level": level, "observed": got.describe(), "Arithmetic::ci(differences so far)": want.describe()}),
                );
                break;
            }
        }
    }
    if l.wants_sample(&format!("paired:{}", F::TY)) {
        let cf = conf(Kind::Two, 0.95);
        l.sample(&format!("paired:{}", F::TY), || json!({"a": c.a, "b": bspec, "n": n, "Paired::ci(two-sided 0.95)": call(|| Paired::<F>::ci(cf, &a, &b)).map(|i| F::obs(&i)).describe(), "Arithmetic::ci(differences)": call(|| Arithmetic::<F>::ci(cf, &d)).map(|i| F::obs(&i)).describe()}));
    }
}

fn judge_mismatch<F: Fl>(la: usize, lb: usize, l: &mut Local) {
    let a: Vec<F> = (0..la).map(|i| F::of(i as f64 + 0.5)).collect();
    let b: Vec<F> = (0..lb).map(|i| F::of(i as f64 * 0.25)).collect();
    let case = || json!({"what": "mismatch", "la": la, "lb": lb, "f32": F::IS32});
    let entries: Vec<(&'static str, Result<(), CIError>)> = vec![
        ("Paired::ci", Paired::<F>::ci(conf(Kind::Two, 0.9), &a, &b).map(|_| ())),
        ("Paired::extend", Paired::<F>::default().extend(&a, &b)),
    ];
    // the reported lengths are those of the two sequences handed to this call, whatever the state held
    let entries: Vec<(&'static str, Result<(), CIError>)> = {
        let mut e = entries;
        let mut st = Paired::<F>::default();
        let _ = st.append_pair(F::of(1.0), F::of(0.5));
        let _ = st.extend_tuple(&vec![(F::of(2.0), F::of(1.0)), (F::of(3.0), F::of(2.5))]);
        e.push(("Paired::extend(on a non-empty state)", st.extend(&a, &b)));
        // columns with holes: the lengths are those of the values, not of the slots
        e.push(("Paired::ci(columns with holes)", Paired::<F>::ci(conf(Kind::Two, 0.9), &crate::lazy::Sparse::of(&a, 2), &crate::lazy::Sparse::of(&b, 3)).map(|_| ())));
        e.push(("Paired::extend(columns with holes)", Paired::<F>::default().extend(&crate::lazy::Sparse::of(&a, 1), &crate::lazy::Sparse::of(&b, 0))));
        e
    };
    for (name, r) in entries {
        l.eval();
        l.count("unequal lengths judged");
        l.nontrivial(mix(&[la as u64, lb as u64, F::IS32 as u64, 77]));
        let ok = matches!(&r, Err(CIError::DifferentSampleSizes(x, y)) if *x == la && *y == lb);
        if !ok {
            let dir = if la > lb { "first-longer" } else { "second-longer" };
            l.violation(
                format!("{}|{}|unequal-lengths|{}", name, F::TY, dir),
                format!("unequal lengths ({}, {}) are not answered with DifferentSampleSizes({}, {})", la, lb, la, lb),
                case(),
                json!({"len_a": la, "len_b": lb, "observed": format!("{:?}", r)}),
            );
        }
    }
}

// ------------------------------------------------------------------------------ unpaired

pub struct UnpairedRef {
    pub diff: f64,
    pub se: f64,
    pub nu: f64,
    pub tol_fixed: f64,
    pub dse: f64,
    pub dnu: f64,
}

/// reference quantities for the unpaired interval from exact per-sample statistics
pub fn unpaired_ref(sa: &ExactStats, sb: &ExactStats, u: f64) -> UnpairedRef {
    let (na, nb) = (sa.n as f64, sb.n as f64);
    let va = sa.var_f / na;
    let vb = sb.var_f / nb;
    let se = (va + vb).sqrt();
    // the documented formula (va+vb)^2 / (va^2/(na+1) + vb^2/(nb+1)) - 2, evaluated through the shares
    // of the two samples so that the oracle itself cannot overflow on extreme magnitudes
    let (pa, pb) = (va / (va + vb), vb / (va + vb));
    let nu = 1.0 / (pa * pa / (na + 1.0) + pb * pb / (nb + 1.0)) - 2.0;
    let (ba, bb) = (budget(sa, u), budget(sb, u));
    let dva = ba.d_v / na + 4.0 * u * va;
    let dvb = bb.d_v / nb + 4.0 * u * vb;
    let dse = (dva + dvb) / (2.0 * se) + 4.0 * u * se;
    let ea = if va > 0.0 { dva / va } else { 0.0 };
    let eb = if vb > 0.0 { dvb / vb } else { 0.0 };
    let dnu = (nu + 2.0) * (4.0 * (ea + eb) + 32.0 * u);
    let diff = sa.mean_f - sb.mean_f;
    let e_d = (K_S + 1.0) * u * (sa.a_f / na + sb.a_f / nb) + u * (sa.mean_f.abs() + sb.mean_f.abs());
    UnpairedRef { diff, se, nu, tol_fixed: e_d, dse, dnu }
}

pub fn unpaired_expected(r: &UnpairedRef, u: f64, kind: Kind, level: f64) -> Vec<(f64, f64, f64, &'static str, f64)> {
    let target = kind.target(level);
    let mut out = vec![];
    for cr in crit(r.nu, target) {
        // sensitivity of c to the rounding of the effective dof (t branch only)
        let dc_nu = if cr.which == "t" {
            let lo = (r.nu - r.dnu).max(0.5);
            let hi = r.nu + r.dnu;
            let c1 = sci_common::dist::t_ppf(target, lo);
            let c2 = sci_common::dist::t_ppf(target, hi);
            (c1 - cr.c).abs().max((c2 - cr.c).abs())
        } else {
            0.0
        };
        let span = cr.c * r.se;
        let tol = r.tol_fixed + cr.c.abs() * r.dse + (cr.dc + dc_nu) * r.se + 8.0 * U64 * (r.diff.abs() + span.abs()) + u * (r.diff.abs() + span.abs());
        out.push((r.diff - span, r.diff + span, tol, cr.which, cr.c));
    }
    out
}

fn mirror(o: &Obs) -> Obs {
    Obs { kind: o.kind.flipped(), lo: -o.hi, hi: -o.lo }
}

fn judge_unpaired<F: Fl>(c: &Case, l: &mut Local) {
    let a64 = scaled(sample(&c.a), c.scale_log2);
    let b64 = scaled(sample(&c.b), c.scale_log2);
    let a: Vec<F> = conv(&a64);
    let b: Vec<F> = conv(&b64);
    let (na, nb) = (a.len(), b.len());
    if c.scale_log2 != 0 {
        l.count("unpaired: samples scaled by 2^±k (extreme finite magnitudes)");
    }
    let case = || serde_json::to_value(c).unwrap();
    let (sa, sb) = (stats_f64(&a64), stats_f64(&b64));
    // domain: each sample well conditioned or exactly constant, at least one with spread
    let okc = |s: &ExactStats| in_domain(s, F::U) || (s.n >= 2 && s.var_f == 0.0);
    // sums of squares must stay inside the range of F (the crate documents sums of x and x^2)
    let (fmax, fmin) = if F::IS32 { (f32::MAX as f64, f32::MIN_POSITIVE as f64) } else { (f64::MAX, f64::MIN_POSITIVE) };
    let in_range = |s: &ExactStats| s.q_f <= fmax / 64.0 && (s.var_f == 0.0 || s.var_f >= fmin * 2f64.powi(if F::IS32 { 40 } else { 110 }));
    let dom = okc(&sa) && okc(&sb) && (sa.var_f > 0.0 || sb.var_f > 0.0) && in_range(&sa) && in_range(&sb);
    let both_constant = sa.n >= 2 && sb.n >= 2 && sa.var_f == 0.0 && sb.var_f == 0.0;
    if both_constant {
        l.count("unpaired: both samples constant");
    }
    // feeding styles
    let s_ci = Unpaired::<F>::from_iter(&a, &b).unwrap();
    let mut s_ext = Unpaired::<F>::default();
    s_ext.extend(&a, &b).unwrap();
    let mut s_ab = Unpaired::<F>::default();
    s_ab.extend_b(&b).unwrap();
    s_ab.extend_a(&a).unwrap();
    let mut s_app = Unpaired::<F>::default();
    {
        // interleaved appends; pairs while both last
        let m = na.min(nb);
        for i in 0..m {
            s_app.append_pair(a[i], b[i]).unwrap();
        }
        for x in &a[m..] {
            s_app.append_a(*x).unwrap();
        }
        for y in &b[m..] {
            s_app.append_b(*y).unwrap();
        }
    }
    // extend on a state that already holds observations: appended heads, then two batches
    let mut s_inc = Unpaired::<F>::default();
    {
        let (ha, hb) = (na / 3, nb / 2);
        for x in &a[..ha] {
            s_inc.append_a(*x).unwrap();
        }
        for y in &b[..hb] {
            s_inc.append_b(*y).unwrap();
        }
        let (ma, mb) = (ha + (na - ha) / 2, hb + (nb - hb) / 2);
        s_inc.extend(&a[ha..ma].to_vec(), &b[hb..mb].to_vec()).unwrap();
        s_inc.extend(&crate::lazy::Lazy(a[ma..].to_vec()), &crate::lazy::Sparse::of(&b[mb..], 2)).unwrap();
    }
    let s_new = Unpaired::<F>::new(Arithmetic::<F>::from_iter(&a).unwrap(), Arithmetic::<F>::from_iter(&b).unwrap());
    let mut s_mut = Unpaired::<F>::default();
    for x in a.iter() {
        StatisticsOps::append(s_mut.stats_a_mut(), *x).unwrap();
    }
    for y in b.iter() {
        StatisticsOps::append(s_mut.stats_b_mut(), *y).unwrap();
    }
    let reference = if dom { Some(unpaired_ref(&sa, &sb, F::U)) } else { None };
    for &(kind, level) in c.confs.iter() {
        let cf = conf(kind, level);
        let base = call(|| Unpaired::<F>::ci(cf, &a, &b)).map(|i| F::obs(&i));
        let styles: Vec<(&'static str, Out<Obs>)> = vec![
            ("Unpaired::from_iter+ci_mean", call(|| s_ci.ci_mean(cf)).map(|i| F::obs(&i))),
            ("Unpaired::extend+ci_mean", call(|| s_ext.ci_mean(cf)).map(|i| F::obs(&i))),
            ("Unpaired::extend_b,extend_a+ci_mean", call(|| s_ab.ci_mean(cf)).map(|i| F::obs(&i))),
            ("Unpaired::append_pair/append_a/append_b+ci_mean", call(|| s_app.ci_mean(cf)).map(|i| F::obs(&i))),
            ("Unpaired::new(Arithmetic,Arithmetic)+ci_mean", call(|| s_new.ci_mean(cf)).map(|i| F::obs(&i))),
            ("Unpaired::stats_a_mut/stats_b_mut+ci_mean", call(|| s_mut.ci_mean(cf)).map(|i| F::obs(&i))),
            ("Unpaired::append_a/append_b,extend,extend(views)+ci_mean", call(|| s_inc.ci_mean(cf)).map(|i| F::obs(&i))),
        ];
        for (name, got) in styles.iter() {
            l.eval();
            l.count("unpaired style compared");
            let eq = same(got, &base) || matches!((got, &base), (Out::Ok(x), Out::Ok(y)) if x.has_nan() && y.has_nan());
            if !eq {
                l.violation(format!("{}|{}|differs-from-Unpaired::ci", name, F::TY), format!("{} does not return the same interval as Unpaired::ci", name), case(), json!({"kind": kind.name(), "level": level, name.to_string(): got.describe(), "Unpaired::ci": base.describe()}));
            }
        }
        // exchange of the samples: exact mirror
        let swapped = call(|| Unpaired::<F>::ci(conf(kind.flipped(), level), &b, &a)).map(|i| F::obs(&i));
        l.eval();
        l.count("mirror judged");
        match (&base, &swapped) {
            (Out::Ok(o), Out::Ok(s)) => {
                let m = mirror(s);
                if !(o.has_nan() && s.has_nan()) && (o.kind != m.kind || o.lo != m.lo || o.hi != m.hi) {
                    l.violation(format!("Unpaired::ci|{}|exchange-not-mirror|{}", F::TY, kind.name()), "exchanging the samples does not negate and mirror the interval (with upper <-> lower)".to_string(), case(), json!({"kind": kind.name(), "level": level, "ci(a,b)": o.json(), "ci(b,a) at flipped kind": s.json()}));
                }
            }
            (x, y) if same(x, y) => {}
            (x, y) => l.violation(format!("Unpaired::ci|{}|exchange-changes-outcome", F::TY), "exchanging the samples changes the outcome class".to_string(), case(), json!({"ci(a,b)": x.describe(), "ci(b,a)": y.describe()})),
        }
        if both_constant {
            // zero variance on both sides: no panic, no NaN; the degenerate interval at the difference
            l.eval();
            let d = sa.mean_f - sb.mean_f;
            let ok = match &base {
                Out::Ok(o) => !o.has_nan() && (kind == Kind::Lower || (o.lo - d).abs() <= 4.0 * F::U * (sa.mean_f.abs() + sb.mean_f.abs())) && (kind == Kind::Upper || (o.hi - d).abs() <= 4.0 * F::U * (sa.mean_f.abs() + sb.mean_f.abs())),
                Out::Err(..) => true,
                Out::Panic(_) => false,
            };
            if !ok {
                l.violation(format!("Unpaired::ci|{}|both-samples-constant|{}", F::TY, base.class()), "two constant samples do not give the degenerate interval at the difference of the constants (or an error)".to_string(), case(), json!({"kind": kind.name(), "level": level, "observed": base.describe(), "difference": d}));
            }
            continue;
        }
        let r = match &reference {
            Some(r) => r,
            None => {
                l.count("unpaired outside domain (styles and mirror only)");
                continue;
            }
        };
        let o = match &base {
            Out::Ok(o) => *o,
            other => {
                l.violation(format!("Unpaired::ci|{}|valid-samples-rejected|{}", F::TY, other.class()), "valid samples (sizes >= 2, finite, well conditioned) do not yield an interval".to_string(), case(), json!({"kind": kind.name(), "level": level, "outcome": other.describe(), "na": na, "nb": nb}));
                continue;
            }
        };
        let wf = o.kind == kind
            && !o.has_nan()
            && match kind {
                Kind::Two => o.lo <= o.hi,
                Kind::Upper => o.hi == f64::INFINITY,
                Kind::Lower => o.lo == f64::NEG_INFINITY,
            };
        let mag = {
            let m = a64.iter().chain(b64.iter()).fold(0.0f64, |m, x| m.max(x.abs()));
            let big = if F::IS32 { 1e9 } else { 1e70 };
            let small = if F::IS32 { 1e-9 } else { 1e-70 };
            if m > big {
                "large-magnitude"
            } else if m < small {
                "small-magnitude"
            } else {
                "ordinary-magnitude"
            }
        };
        if !wf {
            l.violation(format!("Unpaired::ci|{}|malformed-result|{}|{}", F::TY, kind.name(), mag), "result kind does not match the confidence, or a bound is NaN / inverted, on valid samples".to_string(), case(), json!({"kind": kind.name(), "level": level, "observed": o.json(), "na": na, "nb": nb}));
            continue;
        }
        let cands = unpaired_expected(r, F::U, kind, level);
        let mut best = (f64::INFINITY, "none", f64::NAN, f64::NAN, f64::NAN);
        for (elo, ehi, tol, which, cc) in cands.iter() {
            let mut q: f64 = 0.0;
            if kind != Kind::Lower {
                q = q.max((o.lo - elo).abs() / tol);
            }
            if kind != Kind::Upper {
                q = q.max((o.hi - ehi).abs() / tol);
            }
            if q < best.0 {
                best = (q, which, *elo, *ehi, *cc);
            }
        }
        l.max_with("unpaired_bound_err_over_budget", best.0, || json!({"case": c, "kind": kind.name(), "level": level}));
        l.nontrivial(mix(&[hash_f64s(&a64[..na.min(32)]), hash_f64s(&b64[..nb.min(32)]), na as u64, nb as u64, F::IS32 as u64, kind as u64, level.to_bits()]));
        l.count_s(format!("unpaired:{}:{}", F::TY, kind.name()));
        l.count_s(format!("unpaired:{}", mag));
        if sa.var_f == 0.0 || sb.var_f == 0.0 {
            l.count("unpaired: one constant sample");
        }
        if na != nb {
            l.count("unpaired: unequal sizes");
        }
        if na.max(nb) >= 50 * na.min(nb) {
            l.count("unpaired: very unequal sizes");
        }
        if na + nb >= 99_990 && r.nu < 1000.0 {
            l.count("unpaired: combined size around 100 000, small effective dof");
        }
        if !(best.0 <= 1.0) {
            l.violation(
                format!("Unpaired::ci|{}|{}|{}|bound-off-reference", F::TY, kind.name(), mag),
                format!("the unpaired {} bound(s) differ from (mean_a - mean_b) -/+ c*sqrt(sa^2/na + sb^2/nb) at the documented effective dof by {:.3e} x the rounding budget", kind.name(), best.0),
                case(),
                json!({"na": na, "nb": nb, "kind": kind.name(), "level": level, "observed": o.json(), "expected": [jf(best.2), jf(best.3)], "effective_dof": r.nu, "dof_uncertainty": r.dnu, "c": best.4, "quantile": best.1, "std_err": r.se, "ratio": best.0}),
            );
        }
        let cls = format!("unpaired:{}:{}", F::TY, kind.name());
        if l.wants_sample(&cls) {
            l.sample(&cls, || json!({"a": c.a, "b": c.b, "kind": kind.name(), "level": level, "observed": o.json(), "expected": [jf(best.2), jf(best.3)], "effective_dof": r.nu, "err_over_budget": best.0}));
        }
    }
}

fn make_case(seed: u64, i: u64, levels: &[f64], quick: bool) -> Case {
    let mut r = Rng::from(&[seed, 0xc04, i]);
    let f32 = i % 2 == 1;
    let fam_a: Family = REAL_FAMILIES[((i / 2) % 10) as usize];
    let fam_b: Family = if r.chance(0.5) { fam_a } else { *r.pick(&REAL_FAMILIES) };
    let j = i / 20;
    let (na, nb) = match j % 8 {
        // combined size at or beyond the documented t -> z switch of *one* sample (100 000) while the effective dof stays
        // small: the critical value is Student's at the effective dof whatever the sizes add up to
        _ if j % 64 == 13 && i % 20 < 6 => {
            let (big, small) = (r.range(99_990, 100_060) as usize, r.range(3, 9) as usize);
            if r.bool() { (big, small) } else { (small, big) }
        }
        0..=2 => (2 + (j / 8 % 5) as usize, 2 + (j / 40 % 5) as usize), // {2..6}^2 exhaustively
        3 | 4 => (r.range(2, 200) as usize, r.range(2, 200) as usize),
        5 => (r.range(2, 4) as usize, r.range(1000, 5000) as usize),
        6 => (r.range(500, if quick { 3000 } else { 10_000 }) as usize, r.range(2, 12) as usize),
        _ => {
            let n = r.range(2, 2000) as usize;
            (n, n)
        }
    };
    let mut a = Spec { family: fam_a, n: na, seed: r.next_u64(), f32, positive: false };
    let b = Spec { family: fam_b, n: nb, seed: r.next_u64(), f32, positive: false };
    let mut b = b;
    if j % 16 == 9 {
        // one constant sample (exactly representable constant)
        a.family = Family::Constant;
    }
    if j % 48 == 25 {
        // both samples constant: the interval collapses to the difference of the two constants
        a.family = Family::Constant;
        b.family = Family::Constant;
    }
    let mut confs = vec![];
    for kind in KINDS {
        confs.push((kind, *r.pick(&[0.01, 0.1, 0.25, 0.3])));
        confs.push((kind, *r.pick(levels)));
        confs.push((kind, *r.pick(levels)));
    }
    // every 12th pair at an extreme (but finite, squares representable) magnitude
    let scale_log2 = if j % 12 == 5 && !matches!(fam_a, Family::LogUniform | Family::SumAdversarial) && !matches!(fam_b, Family::LogUniform | Family::SumAdversarial) {
        let k = if f32 { r.range(28, 36) } else { r.range(280, 420) } as i32;
        if r.bool() {
            k
        } else {
            -k
        }
    } else {
        0
    };
    Case { a, b, confs, scale_log2 }
}

pub fn run(run: &Arc<Run>) {
    let seed = run.cfg.seed;
    let quick = run.cfg.quick();
    let levels = level_grid(seed, 8);
    run.set_rule(
        "seeded pairs of samples from the 10 real-valued families (same or different family; sizes {2..6}^2 exhaustively, random up to 200, equal up to 2000, very unequal 2-4 vs 1000-5000 and 500-10^4 vs 2-12; one constant sample) x f32/f64 x 9 confidences per pair incl. levels < 1/2. \
         Paired: every feeding style (ci, extend, extend_tuple, append_pair, mixed) must be bit-identical to Arithmetic::ci of the monitor-formed differences; unequal lengths (all (la, lb) in 0..7 and some long ones) must give DifferentSampleSizes(la, lb). \
         Unpaired: every style (ci, from_iter, extend, extend_b+extend_a, append_pair/append_a/append_b, new(Arithmetic, Arithmetic), stats_a_mut/stats_b_mut) bit-identical; exchange of samples an exact mirror; bounds against exact statistics, the documented effective dof and the monitor's own t quantile at real-valued dof with a propagated rounding budget. \
         non-trivial = valid, well-conditioned pairs; distinct = (data, sizes, type, confidence) fingerprints.",
    );
    run.assume("same tolerance model as C01 (DESIGN.md section 3); the effective dof is the crate's documented formula (na+1, nb+1, minus 2)");
    if let Some(case) = &run.replay_case {
        let mut l = run.local();
        if case["what"] == "mismatch" {
            let (la, lb) = (case["la"].as_u64().unwrap() as usize, case["lb"].as_u64().unwrap() as usize);
            if case["f32"].as_bool().unwrap_or(false) {
                judge_mismatch::<f32>(la, lb, &mut l)
            } else {
                judge_mismatch::<f64>(la, lb, &mut l)
            }
        } else {
            let c: Case = serde_json::from_value(case.clone()).expect("case");
            if c.a.f32 {
                judge_paired::<f32>(&c, &mut l);
                judge_unpaired::<f32>(&c, &mut l);
            } else {
                judge_paired::<f64>(&c, &mut l);
                judge_unpaired::<f64>(&c, &mut l);
            }
        }
        run.absorb(l);
        return;
    }
    let n = run.cfg.by(16_000u64, 400_000);
    run.par(n, |i, l| {
        let c = make_case(seed, i, &levels, quick);
        if c.a.f32 {
            judge_paired::<f32>(&c, l);
            judge_unpaired::<f32>(&c, l);
        } else {
            judge_paired::<f64>(&c, l);
            judge_unpaired::<f64>(&c, l);
        }
    });
    // unequal lengths
    let mut pairs: Vec<(usize, usize)> = vec![];
    for la in 0..7 {
        for lb in 0..7 {
            if la != lb {
                pairs.push((la, lb));
            }
        }
    }
    pairs.extend([(100, 3), (3, 100), (1000, 999), (999, 1000), (5000, 0), (0, 5000)]);
    run.par(pairs.len() as u64, |i, l| {
        let (la, lb) = pairs[i as usize];
        judge_mismatch::<f64>(la, lb, l);
        judge_mismatch::<f32>(la, lb, l);
    });
    let mut req: Vec<String> = vec![
        "paired style compared".into(),
        "paired state queried between feeding steps".into(),
        "unpaired style compared".into(),
        "mirror judged".into(),
        "unequal lengths judged".into(),
        "unpaired: one constant sample".into(),
        "unpaired: both samples constant".into(),
        "unpaired: unequal sizes".into(),
        "unpaired: very unequal sizes".into(),
        "unpaired: combined size around 100 000, small effective dof".into(),
        "unpaired:ordinary-magnitude".into(),
        "unpaired:large-magnitude".into(),
        "unpaired: samples scaled by 2^±k (extreme finite magnitudes)".into(),
    ];
    for ty in ["f32", "f64"] {
        for k in KINDS {
            req.push(format!("unpaired:{}:{}", ty, k.name()));
        }
    }
    let r: Vec<&str> = req.iter().map(|s| s.as_str()).collect();
    run.require(&r);
    let _: Option<ErrFam> = None;
}
