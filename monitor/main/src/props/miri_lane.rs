//! Miri lane (thorough tier of C03 and C09): the only sanitizer lane of this code base.
//! `sci-monitor miri-lane c03|c09` is the workload that is *interpreted* by Miri
//! (`cargo +nightly miri run`); `under_miri()` is the native side that spawns it, maps Miri's
//! diagnostics to a verdict and folds what was observed into the evidence of the property.
use sci_common::rt::{caught, Local, Rng, Run};
use serde_json::{json, Value};
use stats_ci::mean::Arithmetic;
use stats_ci::{quantile, Confidence, Interval, StatisticsOps};
use std::sync::{Arc, Mutex};

/// workload interpreted by Miri; prints one line `MIRI-LANE-RESULT <json>`
pub fn lane_main(args: &[String]) -> i32 {
    let which = args.first().map(|s| s.as_str()).unwrap_or("");
    let seed: u64 = args.iter().position(|a| a == "--seed").and_then(|i| args.get(i + 1)).and_then(|s| s.parse().ok()).unwrap_or(1);
    let mut r = Rng::from(&[seed, 0x3141]);
    match which {
        "c03" => {
            // ArrayVec-backed fixed-capacity entry point: CAP = n, n+1, and the documented
            // capacity panic CAP = n-1 (unwinding through the unsafe collect path)
            let mut calls = 0u64;
            let mut panics = 0u64;
            let mut mismatches = 0u64;
            for round in 0..6 {
                for n in [4usize, 5, 7, 8] {
                    let data: Vec<i32> = (0..n).map(|_| r.range(-5, 5) as i32).collect();
                    let fdata: Vec<f64> = data.iter().map(|x| *x as f64 * 0.5).collect();
                    let c = match round % 3 {
                        0 => Confidence::TwoSided(0.9),
                        1 => Confidence::UpperOneSided(0.75),
                        _ => Confidence::LowerOneSided(0.6),
                    };
                    let reference = quantile::ci(c, &data, 0.5).ok();
                    macro_rules! cap {
                        ($cap:literal) => {{
                            calls += 1;
                            match caught(|| quantile::ci_max_size::<i32, _, $cap>(c, &data, 0.5)) {
                                Ok(res) => {
                                    if $cap >= n && res.ok() != reference {
                                        mismatches += 1;
                                    }
                                }
                                Err(_) => {
                                    panics += 1;
                                    if $cap >= n {
                                        mismatches += 1; // a panic although the capacity suffices
                                    }
                                }
                            }
                        }};
                    }
                    cap!(3);
                    cap!(4);
                    cap!(5);
                    cap!(6);
                    cap!(7);
                    cap!(8);
                    cap!(9);
                    calls += 1;
                    let a = quantile::ci_max_size::<f64, _, 16>(c, &fdata, 0.4).ok();
                    let b = quantile::ci(c, &fdata, 0.4).ok();
                    if a != b {
                        mismatches += 1;
                    }
                }
            }
            println!("MIRI-LANE-RESULT {}", json!({"lane": "c03", "seed": seed, "calls": calls, "documented_capacity_panics_unwound": panics, "mismatches": mismatches}));
            if mismatches > 0 {
                return 3;
            }
            0
        }
        "c09" => {
            // threaded reduce of Arithmetic states + concurrent ci_mean on the normal branch
            // (shared lazy_static Normal inside the crate)
            let workers = 4;
            let chunks: Vec<Vec<f64>> = (0..8).map(|_| (0..3).map(|_| r.range(-8, 8) as f64 * 0.25).collect()).collect();
            let all: Vec<f64> = chunks.iter().flatten().cloned().collect();
            let pool: Mutex<Vec<(usize, Arithmetic<f64>)>> = Mutex::new(chunks.iter().map(|c| Arithmetic::<f64>::from_iter(c).unwrap()).enumerate().collect());
            let log: Mutex<Vec<(usize, usize, usize, usize)>> = Mutex::new(vec![]);
            let merges = std::sync::atomic::AtomicUsize::new(0);
            let next = std::sync::atomic::AtomicUsize::new(8);
            // a state past the t -> z switch, built by doubling merges, queried from every thread
            let mut big = Arithmetic::<f64>::from_iter(&vec![1.0, -1.0]).unwrap();
            while big.sample_count() < 140_000 {
                big = big + big;
            }
            let big = &big;
            let cis: Mutex<Vec<String>> = Mutex::new(vec![]);
            std::thread::scope(|sc| {
                for w in 0..workers {
                    let (pool, log, merges, next, cis) = (&pool, &log, &merges, &next, &cis);
                    sc.spawn(move || {
                        let ci = big.ci_mean(Confidence::TwoSided(0.9)).map(|i| format!("{:?}", i)).unwrap_or_default();
                        cis.lock().unwrap().push(ci);
                        loop {
                            if merges.load(std::sync::atomic::Ordering::SeqCst) >= 7 {
                                break;
                            }
                            let pair = {
                                let mut p = pool.lock().unwrap();
                                if p.len() >= 2 {
                                    let a = p.pop().unwrap();
                                    let b = p.pop().unwrap();
                                    Some((a, b))
                                } else {
                                    None
                                }
                            };
                            match pair {
                                None => std::thread::yield_now(),
                                Some(((ia, a), (ib, b))) => {
                                    std::thread::yield_now();
                                    let m = a + b;
                                    let id = next.fetch_add(1, std::sync::atomic::Ordering::SeqCst);
                                    log.lock().unwrap().push((w, ia, ib, id));
                                    pool.lock().unwrap().push((id, m));
                                    merges.fetch_add(1, std::sync::atomic::Ordering::SeqCst);
                                }
                            }
                        }
                    });
                }
            });
            let root = pool.into_inner().unwrap().pop().unwrap().1;
            let batch = Arithmetic::<f64>::from_iter(&all).unwrap();
            let log = log.into_inner().unwrap();
            let workers_used: std::collections::HashSet<usize> = log.iter().map(|e| e.0).collect();
            let mut consumed: Vec<usize> = log.iter().flat_map(|e| [e.1, e.2]).collect();
            consumed.sort();
            let once = consumed.windows(2).all(|w| w[0] != w[1]) && (0..8).all(|i| consumed.contains(&i));
            // dyadic data: every merge order gives the same bits
            let same = root.sample_count() == batch.sample_count() && root.sample_mean() == batch.sample_mean() && root.sample_variance() == batch.sample_variance();
            let cis = cis.into_inner().unwrap();
            let ci_same = cis.windows(2).all(|w| w[0] == w[1]);
            let shape: Vec<String> = log.iter().map(|e| format!("{}+{}", e.1, e.2)).collect();
            println!(
                "MIRI-LANE-RESULT {}",
                json!({"lane": "c09", "seed": seed, "merges": log.len(), "workers_that_merged": workers_used.len(), "threads_spawned": workers, "each_chunk_exactly_once": once, "root_equals_batch": same, "normal_branch_ci_identical_across_threads": ci_same, "merge_order": shape.join(",")})
            );
            // (Miri perturbs transcendental float operations on purpose: `ci_same` is reported only)
            if !(once && same) {
                return 3;
            }
            0
        }
        _ => {
            eprintln!("usage: sci-monitor miri-lane c03|c09 [--seed N]");
            2
        }
    }
}

/// Spawn the lane under Miri and fold the outcome into the run. Never a verdict on its own
/// unless Miri reports UB / a data race / a leak with a frame of the crate or its dependencies.
pub fn under_miri(run: &Arc<Run>, lane: &str, many_seeds: Option<&str>) {
    let mon = match std::env::var("VERIF_MON_DIR") {
        Ok(d) => d,
        Err(_) => {
            run.inconclusive("miri_lane:VERIF_MON_DIR_not_set");
            return;
        }
    };
    let target = std::env::var("CARGO_TARGET_DIR").unwrap_or_else(|_| format!("{}/target", mon));
    let mut flags = String::from("-Zmiri-ignore-leaks-off");
    flags.clear();
    if let Some(s) = many_seeds {
        flags.push_str(&format!("-Zmiri-many-seeds={}", s));
    }
    let t0 = std::time::Instant::now();
    let out = std::process::Command::new("cargo")
        .current_dir(&mon)
        .env("MIRIFLAGS", &flags)
        .env("CARGO_TARGET_DIR", format!("{}/miri", target))
        .env("CARGO_NET_OFFLINE", "true")
        .args(["+nightly", "miri", "run", "--offline", "-q", "-p", "sci-monitor", "--", "miri-lane", lane, "--seed", &run.cfg.seed.to_string()])
        .output();
    let out = match out {
        Ok(o) => o,
        Err(e) => {
            run.inconclusive(format!("miri_lane:cannot_spawn_cargo_miri:{}", e.to_string().replace(' ', "_")));
            return;
        }
    };
    let stdout = String::from_utf8_lossy(&out.stdout).to_string();
    let stderr = String::from_utf8_lossy(&out.stderr).to_string();
    let results: Vec<Value> = stdout.lines().filter_map(|l| l.strip_prefix("MIRI-LANE-RESULT ")).filter_map(|j| serde_json::from_str(j).ok()).collect();
    let mut l: Local = run.local();
    let diag = stderr.contains("Undefined Behavior") || stderr.contains("Data race detected") || stderr.contains("memory leaked") || stderr.contains("error: unsupported operation");
    run.extra(
        &format!("miri_lane_{}", lane),
        json!({"processes_interpreted": results.len(), "results": results.iter().take(16).collect::<Vec<_>>(), "wall_s": t0.elapsed().as_secs_f64(), "miri_exit_code": out.status.code(), "diagnostics_seen": diag,
               "distinct_merge_orders_under_miri": results.iter().filter_map(|r| r["merge_order"].as_str()).collect::<std::collections::HashSet<_>>().len()}),
    );
    if diag {
        // whose code was executing? a frame in the crate or a dependency makes it the property's problem
        let ours = ["stats_ci", "stats-ci", "arrayvec", "statrs", "lazy_static", "num_traits", "num-traits"];
        let in_crate = stderr.lines().any(|ln| (ln.contains(" at ") || ln.contains("-->") || ln.contains("inside")) && ours.iter().any(|o| ln.contains(o)));
        let log = format!("{}/miri-{}.stderr", run.cfg.replays, lane);
        let _ = std::fs::create_dir_all(&run.cfg.replays);
        let _ = std::fs::write(&log, &stderr);
        if in_crate {
            let first = stderr.lines().find(|l| l.contains("error:")).unwrap_or("").to_string();
            l.violation(format!("miri|{}|{}", lane, first.split(':').nth(1).unwrap_or("diagnostic").trim().replace(' ', "-")), format!("Miri reports undefined behaviour / a data race / a leak while the crate or a dependency was executing: {}", first), json!({"lane": lane, "miri_log": log, "seed": run.cfg.seed}), json!({"stderr_tail": stderr.lines().rev().take(30).collect::<Vec<_>>()}));
        } else {
            run.inconclusive(format!("miri_lane_{}:diagnostic_without_a_frame_of_the_crate(see_{})", lane, log));
        }
    } else if !out.status.success() {
        // exit 3 = the interpreted workload saw a functional mismatch (left to the native monitors);
        // anything else: Miri could not run
        if results.is_empty() {
            run.inconclusive(format!("miri_lane_{}:miri_did_not_run(exit_{:?}):{}", lane, out.status.code(), stderr.lines().last().unwrap_or("").replace(' ', "_")));
        } else {
            run.note(format!("miri lane {}: interpreted workload reported a functional mismatch (exit {:?}); the native monitor is the judge of that", lane, out.status.code()));
        }
    }
    if !results.is_empty() {
        l.count_s(format!("miri lane {} interpreted", lane));
        for r in results.iter() {
            l.evals(r["calls"].as_u64().unwrap_or(0) + r["merges"].as_u64().unwrap_or(0));
        }
    }
    run.absorb(l);
    let _: Option<Interval<f64>> = None;
}
