//! C15 — interval comparison is a strict partial order consistent with equality.
use crate::model::M;
use crate::props::c07::{ikind, intervals};
use sci_common::rt::{hash_str, mix, Local, Rng, Run};
use serde_json::{json, Value};
use stats_ci::Interval;
use std::cmp::Ordering;
use std::fmt::Debug;
use std::sync::Arc;

fn ostr(o: Option<Ordering>) -> &'static str {
    match o {
        Some(Ordering::Less) => "Less",
        Some(Ordering::Equal) => "Equal",
        Some(Ordering::Greater) => "Greater",
        None => "None",
    }
}

fn judge_pair<T: Clone + PartialOrd + Debug>(ty: &str, a: &Interval<T>, b: &Interval<T>, case: &dyn Fn() -> Value, l: &mut Local) {
    let (ka, kb) = (ikind(a), ikind(b));
    let got = a.partial_cmp(b);
    let want = M::of(a).order(&M::of(b));
    let detail = |extra: Value| json!({"type": ty, "a": format!("{:?}", a), "b": format!("{:?}", b), "partial_cmp": ostr(got), "expected": ostr(want), "info": extra});
    l.eval();
    if got != want {
        l.violation(
            format!("partial_cmp|{}x{}|got={},want={}", ka, kb, ostr(got), ostr(want)),
            format!("partial_cmp of ({}, {}) gives {} where the order of the denoted sets gives {}", ka, kb, ostr(got), ostr(want)),
            case(),
            detail(Value::Null),
        );
    }
    // Equal exactly when ==
    l.eval();
    if (got == Some(Ordering::Equal)) != (a == b) {
        l.violation(format!("equal-vs-eq|{}x{}", ka, kb), "partial_cmp is Equal but == disagrees (or vice versa)".to_string(), case(), detail(json!({"==": a == b})));
    }
    // != is the negation of == (an overridden `ne` is part of the equality the order must be consistent with)
    l.eval();
    #[allow(clippy::nonminimal_bool)]
    if (a != b) == (a == b) || (b != a) == (b == a) {
        l.violation(format!("ne-vs-eq|{}x{}", ka, kb), "a != b is not the negation of a == b".to_string(), case(), detail(json!({"==": a == b, "!=": a != b})));
    }
    // antisymmetry: a < b iff b > a
    let rev = b.partial_cmp(a);
    l.eval();
    if got.map(|o| o.reverse()) != rev {
        l.violation(format!("antisymmetry|{}x{}", ka, kb), "a.partial_cmp(b) is not the reverse of b.partial_cmp(a)".to_string(), case(), detail(json!({"b.partial_cmp(a)": ostr(rev)})));
    }
    // operators consistent with partial_cmp
    let ops = [
        ("<", a < b, got == Some(Ordering::Less)),
        ("<=", a <= b, matches!(got, Some(Ordering::Less) | Some(Ordering::Equal))),
        (">", a > b, got == Some(Ordering::Greater)),
        (">=", a >= b, matches!(got, Some(Ordering::Greater) | Some(Ordering::Equal))),
    ];
    for (name, g, w) in ops {
        l.eval();
        if g != w {
            l.violation(format!("operator{}|{}x{}", name, ka, kb), format!("operator {} inconsistent with partial_cmp", name), case(), detail(json!({"operator": name, "value": g})));
        }
    }
    l.count_s(format!("{}:{}x{}:{}", ty, ka, kb, ostr(want)));
    l.nontrivial(mix(&[hash_str(ty), hash_str(&format!("{:?}|{:?}", a, b))]));
    let cls = format!("{}x{}:{}", ka, kb, ostr(want));
    if l.wants_sample(&cls) {
        l.sample(&cls, || detail(Value::Null));
    }
}

fn judge_triple<T: Clone + PartialOrd + Debug>(ty: &str, a: &Interval<T>, b: &Interval<T>, c: &Interval<T>, case: &dyn Fn() -> Value, l: &mut Local) {
    l.eval();
    if a < b && b < c {
        l.count("chains a<b<c");
        if !(a < c) {
            l.violation(
                format!("transitivity|{}<{}<{}", ikind(a), ikind(b), ikind(c)),
                "a < b and b < c but not a < c".to_string(),
                case(),
                json!({"type": ty, "a": format!("{:?}", a), "b": format!("{:?}", b), "c": format!("{:?}", c)}),
            );
        }
    }
}

fn sweep<T: Clone + PartialOrd + Debug + Sync + Send>(run: &Arc<Run>, ty: &'static str, chain: Vec<T>) {
    let ivs = intervals(&chain);
    let n = ivs.len() as u64;
    if let Some(case) = &run.replay_case {
        if case["ty"] == ty {
            let mut l = run.local();
            let g = |k: &str| case[k].as_u64().unwrap() as usize;
            if case["c"].is_null() {
                judge_pair(ty, &ivs[g("a")], &ivs[g("b")], &|| case.clone(), &mut l);
            } else {
                judge_triple(ty, &ivs[g("a")], &ivs[g("b")], &ivs[g("c")], &|| case.clone(), &mut l);
            }
            run.absorb(l);
        }
        return;
    }
    run.par(n * n, |i, l| {
        let (ia, ib) = ((i / n) as usize, (i % n) as usize);
        judge_pair(ty, &ivs[ia], &ivs[ib], &|| json!({"ty": ty, "a": ia, "b": ib}), l);
        for ic in 0..n as usize {
            judge_triple(ty, &ivs[ia], &ivs[ib], &ivs[ic], &|| json!({"ty": ty, "a": ia, "b": ib, "c": ic}), l);
        }
    });
}

fn rand_iv(r: &mut Rng) -> Interval<i64> {
    let span = *r.pick(&[2i64, 5, 50]);
    let a = r.range(-span, span);
    let b = r.range(-span, span);
    match r.below(3) {
        0 => Interval::TwoSided(a.min(b), a.max(b)),
        1 => Interval::UpperOneSided(a),
        _ => Interval::LowerOneSided(a),
    }
}

pub fn run(run: &Arc<Run>) {
    run.set_rule(
        "exhaustive: all ordered pairs and all ordered triples of well-formed intervals (3 kinds) over the chains i32 {0..5}, f64 {-inf,-0.0,+0.0,1,+inf}, &str, String; plus seeded random i64 triples. \
         Per pair: partial_cmp against the set-order model (Equal iff ==; Less iff a != b, a bounded above, b bounded below, hi_a <= lo_b), antisymmetry, the four operators; per triple: transitivity of <. \
         distinct = distinct (type, a, b) fingerprints; every pair is non-trivial.",
    );
    run.set_exhaustive(true);
    run.assume("no NaN bounds; two-sided intervals well-formed");
    sweep::<i32>(run, "i32", (0..6).collect());
    sweep::<f64>(run, "f64", vec![f64::NEG_INFINITY, -0.0, 0.0, 1.0, f64::INFINITY]);
    sweep::<&str>(run, "&str", vec!["", "a", "ab", "b"]);
    sweep::<String>(run, "String", ["", "a", "ab", "b"].iter().map(|s| s.to_string()).collect());
    let nrand = run.cfg.by(1_000_000u64, 50_000_000);
    let seed = run.cfg.seed;
    let jr = |i: u64, l: &mut Local| {
        let mut r = Rng::from(&[seed, 0xc15, i]);
        let (a, b, c) = (rand_iv(&mut r), rand_iv(&mut r), rand_iv(&mut r));
        let case = || json!({"ty": "rand-i64", "i": i});
        judge_pair("rand-i64", &a, &b, &case, l);
        judge_triple("rand-i64", &a, &b, &c, &case, l);
    };
    if let Some(case) = &run.replay_case {
        if case["ty"] == "rand-i64" {
            let mut l = run.local();
            jr(case["i"].as_u64().unwrap(), &mut l);
            run.absorb(l);
        }
        return;
    }
    run.par(nrand, jr);
    let mut req: Vec<String> = vec!["chains a<b<c".into()];
    for (a, b, o) in [
        ("TwoSided", "TwoSided", "Less"),
        ("TwoSided", "TwoSided", "Equal"),
        ("TwoSided", "TwoSided", "None"),
        ("TwoSided", "UpperOneSided", "Less"),
        ("LowerOneSided", "UpperOneSided", "Less"),
        ("UpperOneSided", "LowerOneSided", "Greater"),
        ("UpperOneSided", "UpperOneSided", "None"),
        ("UpperOneSided", "UpperOneSided", "Equal"),
        ("LowerOneSided", "TwoSided", "Less"),
    ] {
        req.push(format!("i32:{}x{}:{}", a, b, o));
    }
    let r: Vec<&str> = req.iter().map(|s| s.as_str()).collect();
    run.require(&r);
}
