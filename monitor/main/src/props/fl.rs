//! f32/f64 abstraction for the numeric monitors.
#![allow(dead_code)]
use crate::api::Obs;
use stats_ci::Interval;
use std::fmt::Debug;

pub trait Fl: num_traits::Float + Debug + Send + Sync + std::fmt::Display + 'static {
    const TY: &'static str;
    /// unit roundoff
    const U: f64;
    const IS32: bool;
    fn of(x: f64) -> Self;
    fn f(self) -> f64;
    fn obs(i: &Interval<Self>) -> Obs;
    fn bits64(self) -> u64;
}
impl Fl for f64 {
    const TY: &'static str = "f64";
    const U: f64 = 1.1102230246251565e-16;
    const IS32: bool = false;
    fn of(x: f64) -> f64 {
        x
    }
    fn f(self) -> f64 {
        self
    }
    fn obs(i: &Interval<f64>) -> Obs {
        Obs::of64(i)
    }
    fn bits64(self) -> u64 {
        self.to_bits()
    }
}
impl Fl for f32 {
    const TY: &'static str = "f32";
    const U: f64 = 5.960464477539063e-8;
    const IS32: bool = true;
    fn of(x: f64) -> f32 {
        x as f32
    }
    fn f(self) -> f64 {
        self as f64
    }
    fn obs(i: &Interval<f32>) -> Obs {
        Obs::of32(i)
    }
    fn bits64(self) -> u64 {
        self.to_bits() as u64
    }
}

pub fn conv<F: Fl>(v: &[f64]) -> Vec<F> {
    v.iter().map(|x| F::of(*x)).collect()
}
pub fn widen<F: Fl>(v: &[F]) -> Vec<f64> {
    v.iter().map(|x| x.f()).collect()
}

/// does a `Debug` rendering of a state contain a non-zero compensation term? (coverage metric
/// only; None when the format is not recognised)
pub fn debug_has_nonzero_compensation(dbg: &str) -> Option<bool> {
    let mut found = false;
    let mut any = false;
    let mut rest = dbg;
    while let Some(i) = rest.find("compensation: ") {
        found = true;
        let tail = &rest[i + 14..];
        let end = tail.find(|c: char| c == ' ' || c == ',' || c == '}').unwrap_or(tail.len());
        let tok = &tail[..end];
        if let Ok(v) = tok.parse::<f64>() {
            if v != 0.0 {
                any = true;
            }
        } else {
            return None;
        }
        rest = &tail[end..];
    }
    if found {
        Some(any)
    } else {
        None
    }
}
