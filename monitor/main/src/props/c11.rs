//! C11 — invalid input yields the documented error: never a panic or a NaN interval.
//! Fault enumeration: entry points x hostile input classes x positions x kinds x levels, each
//! call under catch_unwind with a panic hook that records file:line.
use crate::api::{call, conf, ErrFam, Obs, Out};
use crate::props::fl::Fl;
use sci_common::gen::{Kind, KINDS};
use sci_common::rt::{caught, hash_str, jf, mix, Local, Rng, Run};
use serde_json::{json, Value};
use stats_ci::comparison::{Paired, Unpaired};
use stats_ci::mean::{Arithmetic, Geometric, Harmonic};
use stats_ci::{proportion, quantile, Interval, MeanCI, StatisticsOps};
use std::sync::Arc;

const LEVELS: [f64; 3] = [0.001, 0.5, 0.9999];

/// what the documentation promises for a hostile input
#[derive(Clone, Debug)]
enum Want {
    /// must be an error of one of these families
    Err(Vec<ErrFam>),
    /// a finite, well-formed Ok or any error (documentation silent / overflow)
    OkOrAnyErr,
}

fn well_formed(o: &Obs) -> Result<(), &'static str> {
    if o.has_nan() {
        return Err("Ok-with-NaN-bound");
    }
    if o.lo > o.hi {
        return Err("Ok-with-inverted-bounds");
    }
    Ok(())
}

/// judge the outcome of one hostile call
fn verdict(entry: &str, class: &str, want: &Want, out: &Out<Obs>, input: &dyn Fn() -> Value, l: &mut Local) {
    l.eval();
    l.count_s(format!("class:{}", class));
    l.nontrivial(mix(&[hash_str(entry), hash_str(class), hash_str(&input().to_string())]));
    let case = || json!({"entry": entry, "class": class, "input": input()});
    match out {
        Out::Panic(p) => {
            l.count("observed:panic");
            l.count_s(format!("panic@{}", p.location));
            l.violation(format!("{}|{}|panic@{}", entry, class, p.location), format!("{} panics on {} input: {}", entry, class, p.message), case(), json!({"panic": format!("{}: {}", p.location, p.message)}));
        }
        Out::Ok(o) => {
            l.count("observed:Ok");
            if let Err(why) = well_formed(o) {
                l.violation(format!("{}|{}|{}", entry, class, why), format!("{} returns Ok with a NaN or inverted interval on {} input", entry, class), case(), json!({"observed": o.json()}));
            } else if let Want::Err(f) = want {
                l.violation(
                    format!("{}|{}|accepted(want:{})", entry, class, f.iter().map(|x| x.name()).collect::<Vec<_>>().join("/")),
                    format!("{} accepts {} input; documented: {}", entry, class, f.iter().map(|x| x.name()).collect::<Vec<_>>().join(" or ")),
                    case(),
                    json!({"observed": o.json()}),
                );
            }
        }
        Out::Err(f, s) => {
            l.count("observed:Err");
            l.count_s(format!("Err({})", f.name()));
            if let Want::Err(fs) = want {
                if !fs.contains(f) {
                    l.violation(
                        format!("{}|{}|wrong-error:{}", entry, class, f.name()),
                        format!("{} answers {} input with {}; documented: {}", entry, class, f.name(), fs.iter().map(|x| x.name()).collect::<Vec<_>>().join(" or ")),
                        case(),
                        json!({"error": s}),
                    );
                }
            }
        }
    }
    if l.wants_sample(&format!("{}|{}", entry.split('<').next().unwrap_or(entry), class)) {
        l.sample(&format!("{}|{}", entry.split('<').next().unwrap_or(entry), class), || json!({"entry": entry, "class": class, "input": input(), "outcome": out.describe(), "documented": format!("{:?}", want)}));
    }
}

// ------------------------------------------------------------------------------ mean producers

#[derive(Clone, Copy, PartialEq, Debug)]
enum MeanKind {
    Arith,
    Geom,
    Harm,
}

/// documented outcome for a mean producer on `data`
fn want_mean<F: Fl>(mk: MeanKind, data: &[F]) -> Want {
    let n = data.len();
    let mut fams: Vec<ErrFam> = vec![];
    if n < 2 {
        fams.push(ErrFam::TooFewSamples);
    }
    let mut any_silent = false;
    for x in data {
        let v = x.f();
        match mk {
            MeanKind::Arith => {
                if v.is_nan() || v.is_infinite() {
                    fams.push(ErrFam::InvalidInputData);
                }
            }
            MeanKind::Geom | MeanKind::Harm => {
                if v.is_nan() {
                    fams.push(ErrFam::InvalidInputData);
                } else if v <= 0.0 {
                    fams.push(ErrFam::NonPositiveValue);
                } else if v == f64::INFINITY {
                    if mk == MeanKind::Geom {
                        fams.push(ErrFam::InvalidInputData);
                    } else {
                        any_silent = true; // 1/inf = 0 is a legitimate reciprocal
                    }
                }
            }
        }
    }
    // magnitudes whose squares / reciprocals / logarithm sums leave the range of F: an overflow to a
    // non-finite statistic may legitimately surface as InvalidInputData
    let (big, small) = if F::IS32 { (1e18, 1e-18) } else { (1e150, 1e-150) };
    let overflow_prone = data.iter().any(|x| {
        let v = x.f().abs();
        v.is_finite() && (v > big || (v > 0.0 && v < small))
    });
    let _ = any_silent;
    if fams.is_empty() {
        return Want::OkOrAnyErr;
    }
    if overflow_prone {
        fams.push(ErrFam::InvalidInputData);
    }
    fams.sort_by_key(|f| f.name());
    fams.dedup();
    Want::Err(fams)
}

fn mean_entries<F: Fl>(mk: MeanKind, data: &Vec<F>, kind: Kind, level: f64) -> Vec<(String, Out<Obs>)> {
    let c = conf(kind, level);
    let t = F::TY;
    match mk {
        MeanKind::Arith => vec![
            (format!("Arithmetic::ci<{}>", t), call(|| Arithmetic::<F>::ci(c, data)).map(|i| F::obs(&i))),
            (format!("MeanCI::ci(Arithmetic)<{}>", t), call(|| <Arithmetic<F> as MeanCI<F>>::ci(c, data)).map(|i| F::obs(&i))),
            (format!("Arithmetic::from_iter+ci_mean<{}>", t), call(|| Arithmetic::<F>::from_iter(data)?.ci_mean(c)).map(|i| F::obs(&i))),
            (
                format!("Arithmetic::append*+ci_mean<{}>", t),
                call(|| {
                    let mut s = Arithmetic::<F>::new();
                    for x in data.iter() {
                        StatisticsOps::append(&mut s, *x)?;
                    }
                    StatisticsOps::ci_mean(&s, c)
                })
                .map(|i| F::obs(&i)),
            ),
        ],
        MeanKind::Geom => vec![
            (format!("Geometric::ci<{}>", t), call(|| Geometric::<F>::ci(c, data)).map(|i| F::obs(&i))),
            (format!("StatisticsOps::ci(Geometric)<{}>", t), call(|| <Geometric<F> as StatisticsOps<F>>::ci(c, data)).map(|i| F::obs(&i))),
            (format!("Geometric::from_iter+ci_mean<{}>", t), call(|| Geometric::<F>::from_iter(data)?.ci_mean(c)).map(|i| F::obs(&i))),
        ],
        MeanKind::Harm => vec![
            (format!("Harmonic::ci<{}>", t), call(|| Harmonic::<F>::ci(c, data)).map(|i| F::obs(&i))),
            (format!("MeanCI::ci(Harmonic)<{}>", t), call(|| <Harmonic<F> as MeanCI<F>>::ci(c, data)).map(|i| F::obs(&i))),
            (format!("Harmonic::from_iter+ci_mean<{}>", t), call(|| Harmonic::<F>::from_iter(data)?.ci_mean(c)).map(|i| F::obs(&i))),
        ],
    }
}

fn jdata<F: Fl>(d: &[F]) -> Value {
    Value::Array(d.iter().take(12).map(|x| jf(x.f())).collect())
}

fn judge_mean_data<F: Fl>(class: &str, data: &Vec<F>, l: &mut Local) {
    for mk in [MeanKind::Arith, MeanKind::Geom, MeanKind::Harm] {
        let want = want_mean(mk, data);
        for kind in KINDS {
            for level in LEVELS {
                for (entry, out) in mean_entries::<F>(mk, data, kind, level) {
                    verdict(&entry, class, &want, &out, &|| json!({"data": jdata(data), "n": data.len(), "kind": kind.name(), "level": level}), l);
                }
            }
        }
    }
    // comparisons: the hostile sample against a benign one, both orders, and against itself
    let benign: Vec<F> = (0..data.len().max(3)).map(|i| F::of(1.0 + i as f64 * 0.5)).collect();
    let wa = want_mean(MeanKind::Arith, data);
    for kind in KINDS {
        let level = LEVELS[(data.len() + kind as usize) % 3];
        let c = conf(kind, level);
        let inp = |which: &str| json!({"hostile": jdata(data), "n": data.len(), "position": which, "kind": kind.name(), "level": level});
        // unpaired: sizes may differ
        verdict(&format!("Unpaired::ci<{}>", F::TY), class, &wa, &call(|| Unpaired::<F>::ci(c, data, &benign)).map(|i| F::obs(&i)), &|| inp("a"), l);
        verdict(&format!("Unpaired::ci<{}>", F::TY), class, &wa, &call(|| Unpaired::<F>::ci(c, &benign, data)).map(|i| F::obs(&i)), &|| inp("b"), l);
        verdict(&format!("Unpaired::from_iter+ci_mean<{}>", F::TY), class, &wa, &call(|| Unpaired::<F>::from_iter(data, &benign)?.ci_mean(c)).map(|i| F::obs(&i)), &|| inp("a"), l);
        verdict(
            &format!("Unpaired::new+ci_mean<{}>", F::TY),
            class,
            &wa,
            &call(|| Unpaired::<F>::new(Arithmetic::<F>::from_iter(&benign)?, Arithmetic::<F>::from_iter(data)?).ci_mean(c)).map(|i| F::obs(&i)),
            &|| inp("b"),
            l,
        );
        // paired: equal lengths
        let bsame: Vec<F> = benign[..data.len().min(benign.len())].to_vec();
        if bsame.len() == data.len() {
            // differences inherit NaN / inf; an inf - inf difference is NaN as well
            verdict(&format!("Paired::ci<{}>", F::TY), class, &wa, &call(|| Paired::<F>::ci(c, data, &bsame)).map(|i| F::obs(&i)), &|| inp("a"), l);
            verdict(
                &format!("Paired::extend+ci_mean<{}>", F::TY),
                class,
                &wa,
                &call(|| {
                    let mut p = Paired::<F>::default();
                    p.extend(&bsame, data)?;
                    p.ci_mean(c)
                })
                .map(|i| F::obs(&i)),
                &|| inp("b"),
                l,
            );
        }
    }
}

fn special_values<F: Fl>() -> Vec<(&'static str, F)> {
    vec![
        ("NaN", F::nan()),
        ("+inf", F::infinity()),
        ("-inf", F::neg_infinity()),
        ("zero", F::zero()),
        ("-zero", -F::zero()),
        ("negative", F::of(-3.5)),
        ("MAX", F::max_value()),
        ("MIN_POSITIVE", F::min_positive_value()),
        ("subnormal", F::min_positive_value() / F::of(8.0)),
    ]
}

fn mean_sweep<F: Fl>(run: &Arc<Run>, seed: u64, thorough: bool) {
    // (1) empty, singleton, two equal values
    let mut fixed: Vec<(String, Vec<F>)> = vec![("empty".into(), vec![])];
    for v in [1.0, 0.1, -2.0, 1e30, 0.0] {
        fixed.push(("singleton".into(), vec![F::of(v)]));
        fixed.push(("two-equal-values".into(), vec![F::of(v), F::of(v)]));
    }
    for (name, v) in special_values::<F>() {
        fixed.push((format!("singleton-{}", name), vec![v]));
    }
    run.par(fixed.len() as u64, |i, l| {
        let (c, d) = &fixed[i as usize];
        judge_mean_data::<F>(c, d, l);
    });
    // (2) constant data
    let nconst: u64 = if thorough { 2000 } else { 250 };
    run.par(nconst * 7, |i, l| {
        let mut r = Rng::from(&[seed, 0xc11c, i / 7, F::IS32 as u64]);
        let v = match (i / 7) % 4 {
            0 => r.range(1, 999) as f64 / 10.0,
            1 => r.f64(),
            2 => r.uniform(-1e6, 1e6),
            _ => (r.uniform(-60.0, 60.0)).exp2(),
        };
        let len = [2usize, 3, 4, 5, 7, 10, 100][(i % 7) as usize];
        let d: Vec<F> = vec![F::of(v); len];
        judge_mean_data::<F>("constant-data", &d, l);
    });
    // (3) special values injected at every position of otherwise valid samples
    let specials = special_values::<F>();
    let lens: Vec<usize> = vec![2, 3, 4, 5, 6, 7, 8, 20, 200];
    let reps: u64 = if thorough { 12 } else { 2 };
    run.par(lens.len() as u64 * specials.len() as u64 * reps, |i, l| {
        let li = (i % lens.len() as u64) as usize;
        let si = ((i / lens.len() as u64) % specials.len() as u64) as usize;
        let rep = i / (lens.len() as u64 * specials.len() as u64);
        let n = lens[li];
        let mut r = Rng::from(&[seed, 0xc11a, i, F::IS32 as u64]);
        let base: Vec<F> = (0..n).map(|_| F::of(if rep % 2 == 0 { r.uniform(0.5, 9.5) } else { r.uniform(-5.0, 5.0).abs() + 0.01 })).collect();
        let positions: Vec<usize> = if n <= 8 { (0..n).collect() } else { vec![0, n / 2, n - 1] };
        for p in positions {
            let mut d = base.clone();
            d[p] = specials[si].1;
            judge_mean_data::<F>(&format!("{}-at-a-position", specials[si].0), &d, l);
        }
    });
    // (4) huge and tiny magnitudes
    let nmag: u64 = if thorough { 3000 } else { 300 };
    run.par(nmag, |i, l| {
        let mut r = Rng::from(&[seed, 0xc11b, i, F::IS32 as u64]);
        let n = r.range(2, 12) as usize;
        let (cls, scale) = if i % 2 == 0 { ("huge-magnitudes", F::max_value().f() / 4.0) } else { ("tiny-magnitudes", F::min_positive_value().f() * 4.0) };
        let d: Vec<F> = (0..n).map(|_| F::of(scale * r.uniform(0.1, 1.0) * if i % 4 < 2 { 1.0 } else if r.bool() { 1.0 } else { -1.0 })).collect();
        judge_mean_data::<F>(cls, &d, l);
    });
    // (5) unpaired with 0 / 1 observations on either side; paired with unequal lengths
    let mut l = run.local();
    let good: Vec<F> = vec![F::of(1.0), F::of(2.5), F::of(4.0), F::of(3.0)];
    for na in 0..3usize {
        for nb in 0..5usize {
            if na >= 2 && nb >= 2 {
                continue;
            }
            let a: Vec<F> = good[..na].to_vec();
            let b: Vec<F> = good[..nb.min(4)].to_vec();
            for kind in KINDS {
                for level in LEVELS {
                    let c = conf(kind, level);
                    let inp = || json!({"len_a": na, "len_b": nb, "kind": kind.name(), "level": level});
                    let w = Want::Err(vec![ErrFam::TooFewSamples]);
                    verdict(&format!("Unpaired::ci<{}>", F::TY), "too-few-observations-on-a-side", &w, &call(|| Unpaired::<F>::ci(c, &a, &b)).map(|i| F::obs(&i)), &inp, &mut l);
                    verdict(&format!("Unpaired::ci<{}>", F::TY), "too-few-observations-on-a-side", &w, &call(|| Unpaired::<F>::ci(c, &b, &a)).map(|i| F::obs(&i)), &inp, &mut l);
                    verdict(&format!("Unpaired::default+ci_mean<{}>", F::TY), "too-few-observations-on-a-side", &w, &call(|| Unpaired::<F>::from_iter(&a, &b)?.ci_mean(c)).map(|i| F::obs(&i)), &inp, &mut l);
                    if na != nb {
                        let w2 = Want::Err(vec![ErrFam::DifferentSampleSizes]);
                        verdict(&format!("Paired::ci<{}>", F::TY), "mismatched-lengths", &w2, &call(|| Paired::<F>::ci(c, &a, &b)).map(|i| F::obs(&i)), &inp, &mut l);
                    } else {
                        verdict(&format!("Paired::ci<{}>", F::TY), "too-few-pairs", &w, &call(|| Paired::<F>::ci(c, &a, &b)).map(|i| F::obs(&i)), &inp, &mut l);
                    }
                }
            }
        }
    }
    // both samples constant (zero variance on both sides: the effective dof is 0/0)
    for (ca, cb, na, nb) in [(1.0, 2.0, 3usize, 2usize), (0.1, 0.1, 4, 4), (-3.5, 7.25, 2, 9), (1e10, 1e-10, 5, 3)] {
        let a: Vec<F> = vec![F::of(ca); na];
        let b: Vec<F> = vec![F::of(cb); nb];
        for kind in KINDS {
            for level in LEVELS {
                let c = conf(kind, level);
                let inp = || json!({"a": jdata(&a), "b": jdata(&b), "kind": kind.name(), "level": level});
                verdict(&format!("Unpaired::ci<{}>", F::TY), "both-samples-constant", &Want::OkOrAnyErr, &call(|| Unpaired::<F>::ci(c, &a, &b)).map(|i| F::obs(&i)), &inp, &mut l);
                verdict(&format!("Unpaired::from_iter+ci_mean<{}>", F::TY), "both-samples-constant", &Want::OkOrAnyErr, &call(|| Unpaired::<F>::from_iter(&a, &b)?.ci_mean(c)).map(|i| F::obs(&i)), &inp, &mut l);
                if na == nb {
                    verdict(&format!("Paired::ci<{}>", F::TY), "both-samples-constant", &Want::OkOrAnyErr, &call(|| Paired::<F>::ci(c, &a, &b)).map(|i| F::obs(&i)), &inp, &mut l);
                }
            }
        }
    }
    // few, widely dispersed positive observations: the reciprocal-space interval straddles zero and
    // the back-transform is not monotone there; whatever is returned must be an error or well formed
    for data in [vec![1.0, 100.0], vec![3.0, 5.0], vec![0.01, 1.0, 1.0, 1.0, 1.0, 1.0, 1.0, 1.0, 1.0, 1.0], vec![0.001, 1000.0, 3.0], vec![1e-3, 1.0, 2.0, 3.0, 4.0, 5.0, 6.0, 7.0]] {
        let d: Vec<F> = data.iter().map(|x| F::of(*x)).collect();
        for kind in KINDS {
            for level in [0.5, 0.8, 0.9, 0.99, 0.9999] {
                let c = conf(kind, level);
                let inp = || json!({"data": jdata(&d), "kind": kind.name(), "level": level});
                verdict(&format!("Harmonic::ci<{}>", F::TY), "harmonic-reciprocal-CI-straddles-zero", &Want::OkOrAnyErr, &call(|| Harmonic::<F>::ci(c, &d)).map(|i| F::obs(&i)), &inp, &mut l);
                verdict(&format!("Harmonic::from_iter+ci_mean<{}>", F::TY), "harmonic-reciprocal-CI-straddles-zero", &Want::OkOrAnyErr, &call(|| Harmonic::<F>::from_iter(&d)?.ci_mean(c)).map(|i| F::obs(&i)), &inp, &mut l);
                verdict(&format!("Geometric::ci<{}>", F::TY), "harmonic-reciprocal-CI-straddles-zero", &Want::OkOrAnyErr, &call(|| Geometric::<F>::ci(c, &d)).map(|i| F::obs(&i)), &inp, &mut l);
            }
        }
    }
    // empty states queried directly
    for kind in KINDS {
        let c = conf(kind, 0.5);
        let w = Want::Err(vec![ErrFam::TooFewSamples]);
        let inp = || json!({"state": "default()", "kind": kind.name()});
        verdict(&format!("Arithmetic::default+ci_mean<{}>", F::TY), "empty", &w, &call(|| Arithmetic::<F>::default().ci_mean(c)).map(|i| F::obs(&i)), &inp, &mut l);
        verdict(&format!("Geometric::default+ci_mean<{}>", F::TY), "empty", &w, &call(|| Geometric::<F>::default().ci_mean(c)).map(|i| F::obs(&i)), &inp, &mut l);
        verdict(&format!("Harmonic::default+ci_mean<{}>", F::TY), "empty", &w, &call(|| Harmonic::<F>::default().ci_mean(c)).map(|i| F::obs(&i)), &inp, &mut l);
        verdict(&format!("Paired::default+ci_mean<{}>", F::TY), "empty", &w, &call(|| Paired::<F>::default().ci_mean(c)).map(|i| F::obs(&i)), &inp, &mut l);
        verdict(&format!("Unpaired::default+ci_mean<{}>", F::TY), "empty", &w, &call(|| Unpaired::<F>::default().ci_mean(c)).map(|i| F::obs(&i)), &inp, &mut l);
    }
    run.absorb(l);
}

// ------------------------------------------------------------------------------ proportions

fn proportion_sweep(run: &Arc<Run>, seed: u64, thorough: bool) {
    let nmax: usize = if thorough { 60 } else { 24 };
    run.par(nmax as u64 + 1, |n, l| {
        let n = n as usize;
        for k in 0..=n + 2 {
            let class = if k > n {
                "k>n"
            } else if n == 0 {
                "n=0"
            } else if k < 2 {
                "k-in-{0,1}"
            } else if n - k < 2 {
                "n-k-in-{0,1}"
            } else {
                "admissible-counts"
            };
            for kind in KINDS {
                for level in LEVELS {
                    let c = conf(kind, level);
                    let inp = || json!({"n": n, "k": k, "kind": kind.name(), "level": level});
                    let want = if k > n {
                        Want::Err(vec![ErrFam::InvalidSuccesses])
                    } else if k < 2 || n - k < 2 {
                        Want::Err(vec![ErrFam::TooFewSuccesses, ErrFam::TooFewFailures])
                    } else {
                        Want::OkOrAnyErr
                    };
                    verdict("proportion::ci", class, &want, &call(|| proportion::ci(c, n, k)).map(|i| Obs::of64(&i)), &inp, l);
                    verdict("proportion::ci_wilson", class, &want, &call(|| proportion::ci_wilson(c, n, k)).map(|i| Obs::of64(&i)), &inp, l);
                    let wz = if k > n {
                        Want::Err(vec![ErrFam::InvalidSuccesses])
                    } else if k < 10 || n - k < 10 {
                        Want::Err(vec![ErrFam::TooFewSuccesses, ErrFam::TooFewFailures])
                    } else {
                        Want::OkOrAnyErr
                    };
                    verdict("proportion::ci_z_normal", class, &wz, &call(|| proportion::ci_z_normal(c, n, k)).map(|i| Obs::of64(&i)), &inp, l);
                    if k <= n {
                        let st = proportion::Stats::new(n, k);
                        verdict("proportion::Stats::ci", class, &want, &call(|| st.ci(c)).map(|i| Obs::of64(&i)), &inp, l);
                        let bools: Vec<bool> = (0..n).map(|i| i < k).collect();
                        verdict("proportion::ci_true", class, &want, &call(|| proportion::ci_true(c, &bools)).map(|i| Obs::of64(&i)), &inp, l);
                        verdict("proportion::ci_if", class, &want, &call(|| proportion::ci_if(c, &bools, |b| *b)).map(|i| Obs::of64(&i)), &inp, l);
                    }
                }
            }
            // is_significant is a total predicate: it must answer, not panic
            l.eval();
            l.count_s(format!("class:{}", class));
            match caught(|| proportion::is_significant(n, k)) {
                Ok(b) => {
                    if k > n && b {
                        l.violation("proportion::is_significant|k>n|true".to_string(), "is_significant is true for successes > population".to_string(), json!({"entry": "is_significant", "n": n, "k": k}), json!({"n": n, "k": k}));
                    }
                }
                Err(p) => l.violation(format!("proportion::is_significant|{}|panic@{}", class, p.location), format!("is_significant({}, {}) panics: {}", n, k, p.message), json!({"entry": "is_significant", "n": n, "k": k}), json!({"panic": p.message})),
            }
            // the method on a state (the coverage measurement of round six showed it had never been executed): same
            // answer as the free function of the same counts, no panic, also on states assembled by counting
            if k <= n {
                l.eval();
                l.count("Stats::is_significant judged");
                let free = caught(|| proportion::is_significant(n, k)).ok();
                let mut counted = proportion::Stats::default();
                for i in 0..n.min(200) {
                    if i < k { counted.add_success() } else { counted.add_failure() }
                }
                let free_counted = caught(|| proportion::is_significant(counted.population(), counted.successes())).ok();
                for (how, got, want) in [("new", caught(|| proportion::Stats::new(n, k).is_significant()), free), ("counted", caught(|| counted.is_significant()), free_counted)] {
                    match got {
                        Ok(b) if Some(b) == want => {}
                        Ok(b) => l.violation(format!("proportion::Stats::is_significant|{}|differs-from-free-function", how), "Stats::is_significant differs from is_significant(population, successes)".to_string(), json!({"entry": "Stats::is_significant", "n": n, "k": k}), json!({"n": n, "k": k, "method": b, "function": want})),
                        Err(p) => l.violation(format!("proportion::Stats::is_significant|{}|panic@{}", class, p.location), format!("Stats::is_significant panics: {}", p.message), json!({"entry": "Stats::is_significant", "n": n, "k": k}), json!({"panic": p.message})),
                    }
                }
            }
        }
        // ratio front-end with hostile ratios
        for ratio in [0.0, -0.0, -1.0, 1.5, f64::NAN, f64::INFINITY, f64::NEG_INFINITY, 1e300, 5e-324] {
            let inp = || json!({"n": n, "ratio": jf(ratio)});
            let want = if ratio > 0.0 && ratio <= 1.0 { Want::OkOrAnyErr } else { Want::Err(vec![ErrFam::NonPositiveValue, ErrFam::InvalidSuccesses, ErrFam::TooFewSuccesses, ErrFam::TooFewFailures, ErrFam::InvalidInputData]) };
            verdict("proportion::ci_wilson_ratio", "hostile-ratio", &want, &call(|| proportion::ci_wilson_ratio(conf(Kind::Two, 0.5), n, ratio)).map(|i| Obs::of64(&i)), &inp, l);
        }
    });
    // huge counts
    let mut l = run.local();
    let mut r = Rng::from(&[seed, 0xc11d]);
    for _ in 0..if thorough { 4000 } else { 400 } {
        let n = *r.pick(&[usize::MAX, usize::MAX - 1, usize::MAX / 2, 1usize << 53, (1usize << 53) + 1, 1usize << 32, (1usize << 60) + 12345, 10_000_000_000, (1usize << 40) + 3]);
        let k = match r.below(8) {
            0 => n,
            1 => n - 1,
            2 => n / 2,
            3 => r.below(20) as usize,
            4 => n - r.below(20) as usize,
            // successes above the population by less than the spacing of f64 at that magnitude
            5 => n.saturating_add(1),
            6 => n.saturating_add(1 + r.below(100) as usize),
            _ => n / 4 + r.below(1000) as usize,
        };
        let kind = KINDS[r.below(3) as usize];
        let level = *r.pick(&LEVELS);
        let inp = || json!({"n": n.to_string(), "k": k.to_string(), "kind": kind.name(), "level": level});
        let too_many = k > n;
        if too_many {
            l.count("class:huge-counts-k>n");
        }
        let want = if too_many {
            Want::Err(vec![ErrFam::InvalidSuccesses])
        } else if k < 2 || n - k < 2 {
            Want::Err(vec![ErrFam::TooFewSuccesses, ErrFam::TooFewFailures])
        } else {
            Want::OkOrAnyErr
        };
        verdict("proportion::ci", "huge-counts", &want, &call(|| proportion::ci(conf(kind, level), n, k)).map(|i| Obs::of64(&i)), &inp, &mut l);
        verdict("proportion::ci_wilson", "huge-counts", &want, &call(|| proportion::ci_wilson(conf(kind, level), n, k)).map(|i| Obs::of64(&i)), &inp, &mut l);
        let wz = if too_many {
            Want::Err(vec![ErrFam::InvalidSuccesses])
        } else if k < 10 || n - k < 10 {
            Want::Err(vec![ErrFam::TooFewSuccesses, ErrFam::TooFewFailures])
        } else {
            Want::OkOrAnyErr
        };
        verdict("proportion::ci_z_normal", "huge-counts", &wz, &call(|| proportion::ci_z_normal(conf(kind, level), n, k)).map(|i| Obs::of64(&i)), &inp, &mut l);
        l.eval();
        if let Err(p) = caught(|| proportion::is_significant(n, k)) {
            l.violation(format!("proportion::is_significant|huge-counts|panic@{}", p.location), format!("is_significant panics: {}", p.message), json!({"entry": "is_significant", "n": n.to_string(), "k": k.to_string()}), json!({"panic": p.message}));
        }
    }
    run.absorb(l);
}

// ------------------------------------------------------------------------------ quantiles

fn rank_obs(i: &Interval<usize>) -> Obs {
    match i {
        Interval::TwoSided(a, b) => Obs { kind: Kind::Two, lo: *a as f64, hi: *b as f64 },
        Interval::UpperOneSided(a) => Obs { kind: Kind::Upper, lo: *a as f64, hi: f64::INFINITY },
        Interval::LowerOneSided(b) => Obs { kind: Kind::Lower, lo: f64::NEG_INFINITY, hi: *b as f64 },
    }
}

fn quantile_sweep(run: &Arc<Run>, thorough: bool) {
    let qs: Vec<f64> = vec![-1.0, -0.0, 0.0, 5e-324, 1e-9, 0.01, 0.5, 0.99, 1.0 - 2f64.powi(-53), 1.0, 1.0 + 2f64.powi(-52), 2.0, f64::NAN, f64::INFINITY, f64::NEG_INFINITY];
    let nmax: usize = if thorough { 70 } else { 20 };
    run.par(nmax as u64 + 1, |n, l| {
        let n = n as usize;
        let data: Vec<f64> = (0..n).map(|i| (i * 7 % 11) as f64).collect();
        let mut sorted = data.clone();
        sorted.sort_by(|a, b| a.partial_cmp(b).unwrap());
        for &q in qs.iter() {
            let qclass = if !(q > 0.0 && q < 1.0) { "quantile-outside-(0,1)" } else if n < 4 { "fewer-than-4-samples" } else { "quantile-near-the-ends-or-valid" };
            let k = (q * n as f64).round();
            let want = if !(q > 0.0 && q < 1.0) {
                Want::Err(vec![ErrFam::InvalidQuantile])
            } else if n < 4 {
                Want::Err(vec![ErrFam::TooFewSamples, ErrFam::TooFewSuccesses, ErrFam::TooFewFailures])
            } else if k < 2.0 || (n as f64) - k < 2.0 {
                Want::Err(vec![ErrFam::TooFewSuccesses, ErrFam::TooFewFailures])
            } else {
                Want::OkOrAnyErr
            };
            for kind in KINDS {
                for level in LEVELS {
                    let c = conf(kind, level);
                    let inp = || json!({"n": n, "q": jf(q), "kind": kind.name(), "level": level});
                    verdict("quantile::ci_indices", qclass, &want, &call(|| quantile::ci_indices(c, n, q)).map(|i| rank_obs(&i)), &inp, l);
                    verdict("quantile::Stats::ci", qclass, &want, &call(|| quantile::Stats::new(n).ci(c, q)).map(|i| rank_obs(&i)), &inp, l);
                    verdict("quantile::ci", qclass, &want, &call(|| quantile::ci(c, &data, q)).map(|i| Obs::of64(&i)), &inp, l);
                    verdict("quantile::ci_sorted_unchecked", qclass, &want, &call(|| quantile::ci_sorted_unchecked(c, &sorted, q)).map(|i| Obs::of64(&i)), &inp, l);
                    verdict("quantile::ci_max_size<128>", qclass, &want, &call(|| quantile::ci_max_size::<f64, _, 128>(c, &data, q)).map(|i| Obs::of64(&i)), &inp, l);
                    // the same hostile quantiles on samples made of ties only (constant, and constant but for one value at
                    // either end): a shortcut for "all values equal" must not bypass the validation of q and of the counts
                    for (shape, cd) in [("constant", vec![3.0f64; n]), ("constant-but-last", { let mut v = vec![3.0f64; n]; if let Some(x) = v.last_mut() { *x = 4.0; } v }), ("constant-but-first", { let mut v = vec![3.0f64; n]; if let Some(x) = v.first_mut() { *x = 2.0; } v })] {
                        let qc = format!("{}|{}-sample", qclass, shape);
                        let inp = || json!({"n": n, "q": jf(q), "kind": kind.name(), "level": level, "data": shape});
                        verdict("quantile::ci", &qc, &want, &call(|| quantile::ci(c, &cd, q)).map(|i| Obs::of64(&i)), &inp, l);
                        verdict("quantile::ci_sorted_unchecked", &qc, &want, &call(|| quantile::ci_sorted_unchecked(c, &cd, q)).map(|i| Obs::of64(&i)), &inp, l);
                        verdict("quantile::ci_max_size<128>", &qc, &want, &call(|| quantile::ci_max_size::<f64, _, 128>(c, &cd, q)).map(|i| Obs::of64(&i)), &inp, l);
                    }
                }
            }
            // Stats::index: documented errors TooFewSamples (empty) / InvalidQuantile (outside [0,1])
            l.eval();
            let wi = if n == 0 && !(q >= 0.0 && q <= 1.0) {
                Want::Err(vec![ErrFam::TooFewSamples, ErrFam::InvalidQuantile])
            } else if n == 0 {
                Want::Err(vec![ErrFam::TooFewSamples])
            } else if !(q >= 0.0 && q <= 1.0) {
                Want::Err(vec![ErrFam::InvalidQuantile])
            } else {
                Want::OkOrAnyErr
            };
            let out = call(|| quantile::Stats::new(n).index(q)).map(|i| Obs { kind: Kind::Two, lo: i as f64, hi: i as f64 });
            if let Out::Ok(o) = &out {
                if n > 0 && o.lo >= n as f64 {
                    l.violation("quantile::Stats::index|index-out-of-range".to_string(), "Stats::index returns an index >= population".to_string(), json!({"entry": "Stats::index", "n": n, "q": jf(q)}), json!({"index": o.lo, "n": n}));
                }
            }
            verdict("quantile::Stats::index", if !(q >= 0.0 && q <= 1.0) { "quantile-outside-[0,1]" } else { "index-valid-or-empty" }, &wi, &out, &|| json!({"n": n, "q": jf(q)}), l);
        }
    });
    // documented panics must be the only panics: incomparable elements, capacity overflow
    let mut l = run.local();
    let with_nan = vec![1.0, f64::NAN, 3.0, 2.0, 5.0];
    l.eval();
    match caught(|| quantile::ci(conf(Kind::Two, 0.9), &with_nan, 0.5)) {
        Err(_) => l.count("documented panic: incomparable elements in quantile::ci"),
        Ok(r) => {
            // not panicking is fine as long as no NaN-bounded Ok is produced
            if let Ok(i) = r {
                let o = Obs::of64(&i);
                if o.has_nan() {
                    l.violation("quantile::ci|NaN-element|Ok-with-NaN-bound".to_string(), "quantile::ci over data with a NaN returns an interval with a NaN bound".to_string(), json!({"entry": "quantile::ci", "class": "NaN element"}), json!({"observed": o.json()}));
                }
            }
        }
    }
    // a NaN at every position of samples that are otherwise already ordered (ascending, descending,
    // constant) or not: panicking on the incomparable element is documented, an error is fine, an Ok
    // interval with a NaN bound is not
    for n in 4usize..=24 {
        for shape in 0..4 {
            let base: Vec<f64> = (0..n)
                .map(|i| match shape {
                    0 => i as f64 + 1.0,
                    1 => (n - i) as f64,
                    2 => 2.5,
                    _ => ((i * 7) % 11) as f64,
                })
                .collect();
            for pos in 0..n {
                let mut d = base.clone();
                d[pos] = f64::NAN;
                for kind in KINDS {
                    for (level, q) in [(0.95, 0.5), (0.5, 0.25), (0.9, 0.75)] {
                        let c = conf(kind, level);
                        for (entry, out) in [
                            ("quantile::ci", caught(|| quantile::ci(c, &d, q))),
                            ("quantile::ci_max_size<64>", caught(|| quantile::ci_max_size::<f64, _, 64>(c, &d, q))),
                        ] {
                            l.eval();
                            l.count("class:NaN-at-a-position-of-quantile-data");
                            let shape_name = ["ascending", "descending", "constant", "unordered"][shape];
                            if let Ok(Ok(i)) = out {
                                let o = Obs::of64(&i);
                                if o.has_nan() {
                                    l.violation(
                                        format!("{}|NaN-element|Ok-with-NaN-bound|{}", entry, shape_name),
                                        format!("{} over data with a NaN returns an interval with a NaN bound", entry),
                                        json!({"entry": entry, "class": "NaN element"}),
                                        json!({"n": n, "nan_position": pos, "data_shape": shape_name, "q": q, "kind": kind.name(), "level": level, "observed": o.json()}),
                                    );
                                }
                            }
                        }
                    }
                }
            }
        }
    }
    let big: Vec<i32> = (0..20).collect();
    l.eval();
    match caught(|| quantile::ci_max_size::<i32, _, 8>(conf(Kind::Two, 0.9), &big, 0.5)) {
        Err(_) => l.count("documented panic: capacity overflow in quantile::ci_max_size"),
        Ok(_) => l.count("no panic on capacity overflow"),
    }
    run.absorb(l);
}

// ------------------------------------------------------------------------------ documented panics

fn documented_panics(run: &Arc<Run>) {
    let mut l = run.local();
    // constructing an out-of-range Confidence: documented panic (and only for those values)
    for x in [0.0, 1.0, -0.5, 1.5, f64::NAN, f64::INFINITY] {
        for (name, f) in [("new", stats_ci::Confidence::new as fn(f64) -> stats_ci::Confidence), ("new_two_sided", stats_ci::Confidence::new_two_sided), ("new_upper", stats_ci::Confidence::new_upper), ("new_lower", stats_ci::Confidence::new_lower)] {
            l.eval();
            match caught(|| f(x)) {
                Err(_) => l.count("documented panic: Confidence constructor outside (0,1)"),
                Ok(c) => l.violation(format!("Confidence::{}|outside-(0,1)|no-panic", name), "a Confidence outside (0,1) can be constructed".to_string(), json!({"entry": name, "level": jf(x)}), json!({"constructed": format!("{:?}", c)})),
            }
        }
    }
    l.eval();
    match caught(|| proportion::Stats::new(3, 5)) {
        Err(_) => l.count("documented panic: proportion::Stats::new with successes > population"),
        Ok(s) => l.violation("proportion::Stats::new|k>n|no-panic".to_string(), "Stats::new(3, 5) does not panic".to_string(), json!({"entry": "Stats::new"}), json!({"constructed": format!("{:?}", s)})),
    }
    // interval construction: inverted bounds are an error, not a panic
    l.eval();
    match caught(|| Interval::new(10.0, 8.0)) {
        Ok(Err(_)) => l.count("Interval::new(inverted) is an error"),
        other => l.violation("Interval::new|inverted|not-an-error".to_string(), "Interval::new(10, 8) is not answered with an error".to_string(), json!({"entry": "Interval::new"}), json!({"outcome": format!("{:?}", other.map(|r| r.map(|_| "Ok")).map_err(|p| p.message))})),
    }
    // relative_to / interval +/- interval: only the documented combinations panic (C13 judges the values)
    let iv = |k: u8, a: f64, b: f64| match k {
        0 => Interval::TwoSided(a, b),
        1 => Interval::UpperOneSided(a),
        _ => Interval::LowerOneSided(a),
    };
    for ka in 0..3u8 {
        for kb in 0..3u8 {
            let (a, b) = (iv(ka, 1.0, 2.0), iv(kb, 0.5, 4.0));
            l.eval();
            let add_doc = (ka == 1 && kb == 2) || (ka == 2 && kb == 1);
            let sub_doc = (ka == 1 && kb == 1) || (ka == 2 && kb == 2);
            let ra = caught(|| a + b).is_err();
            let rs = caught(|| a - b).is_err();
            if ra != add_doc {
                l.violation(format!("Interval::add(interval)|kinds({},{})|{}", ka, kb, if ra { "undocumented-panic" } else { "documented-panic-missing" }), "interval + interval panics exactly for opposite one-sided kinds".to_string(), json!({"entry": "interval+interval", "ka": ka, "kb": kb}), json!({"panicked": ra}));
            }
            if rs != sub_doc {
                l.violation(format!("Interval::sub(interval)|kinds({},{})|{}", ka, kb, if rs { "undocumented-panic" } else { "documented-panic-missing" }), "interval - interval panics exactly for same-direction one-sided kinds".to_string(), json!({"entry": "interval-interval", "ka": ka, "kb": kb}), json!({"panicked": rs}));
            }
            if ra || rs {
                l.count("documented panic: interval +/- interval of incompatible kinds");
            }
            // relative_to: zero reference / same direction documented
            let zero_ref = iv(kb, 0.0, 4.0);
            l.eval();
            // a reference that is tiny but not zero is not a zero reference: no panic
            for tiny in [1e-300f64, 2f64.powi(-60), 1e-17, 5e-324, -1e-200] {
                let tr = match kb {
                    0 => Interval::TwoSided(tiny.min(tiny * 2.0), tiny.max(tiny * 2.0)),
                    1 => Interval::UpperOneSided(tiny),
                    _ => Interval::LowerOneSided(tiny),
                };
                let same_dir = (a.is_upper() && tr.is_upper()) || (a.is_lower() && tr.is_lower());
                if same_dir {
                    continue;
                }
                l.eval();
                l.count("relative_to a tiny non-zero reference");
                if let Err(p) = caught(|| a.relative_to(&tr)) {
                    l.violation(format!("Interval::relative_to|tiny-nonzero-reference|kinds({},{})|panic@{}", ka, kb, p.location), format!("relative_to panics for a reference that is tiny but not zero: {}", p.message), json!({"entry": "relative_to", "ka": ka, "kb": kb}), json!({"reference": format!("{:?}", tr)}));
                }
            }
            if caught(|| a.relative_to(&zero_ref)).is_err() {
                l.count("documented panic: relative_to a zero reference");
            } else {
                l.violation(format!("Interval::relative_to|zero-reference|kinds({},{})|no-panic", ka, kb), "relative_to a reference with a zero bound does not panic as documented".to_string(), json!({"entry": "relative_to", "ka": ka, "kb": kb}), json!({}));
            }
        }
    }
    run.absorb(l);
}

pub fn run(run: &Arc<Run>) {
    let seed = run.cfg.seed;
    let thorough = !run.cfg.quick();
    run.set_level("fault_enumeration");
    run.set_rule(
        "fault classes x entry points x positions: empty, singleton, two equal values, constant data (values x 7 lengths), NaN/+inf/-inf/0/-0/negative/MAX/MIN_POSITIVE/subnormal injected at every position of samples of length 2..8 (3 positions of longer ones), huge and tiny magnitudes, \
         Unpaired with 0/1 observations on a side, mismatched paired lengths, counts k>n / k, n-k in {0,1} / n = 0 / near usize::MAX, hostile success ratios, quantiles in {<0, -0, 0, 5e-324, 1-2^-53, 1, 1+2^-52, 2, NaN, ±inf} x n = 0.., \
         through every interval-computing entry point (Arithmetic/Geometric/Harmonic ci, MeanCI::ci, StatisticsOps::ci, from_iter/append + ci_mean, Paired, Unpaired (ci, from_iter, new), proportion::{ci, ci_wilson, ci_wilson_ratio, ci_z_normal, ci_true, ci_if, Stats::ci, is_significant}, quantile::{ci, ci_sorted_unchecked, ci_max_size, ci_indices, Stats::ci, Stats::index}) \
         x 3 kinds x levels {0.001, 0.5, 0.9999}, f32 and f64, in a build with overflow checks and debug assertions on. Oracle: no panic outside the documented list, no Ok with a NaN or inverted interval, the documented error family where one is documented (any Err where the documentation is silent). \
         distinct = (entry, class, input) fingerprints; every hostile call is non-trivial.",
    );
    run.assume("the monitor is built with overflow-checks = true and debug-assertions = true (checked-release profile)");
    if let Some(case) = &run.replay_case {
        // replays re-run the class the case belongs to (cases are small; the sweep is cheap)
        let _ = case;
        run.note("replay: re-running the full quick sweep; the signature of the recorded case is looked up in the result");
    }
    mean_sweep::<f64>(run, seed, thorough);
    mean_sweep::<f32>(run, seed, thorough);
    proportion_sweep(run, seed, thorough);
    quantile_sweep(run, thorough);
    documented_panics(run);
    // thorough: compare with the same sweep on the plain production build (informational)
    if let Some(i) = run.cfg.extra.iter().position(|a| a == "--wrapping-summary") {
        if let Some(path) = run.cfg.extra.get(i + 1) {
            match std::fs::read_to_string(path).ok().and_then(|s| serde_json::from_str::<Value>(&s).ok()) {
                Some(doc) => {
                    let sigs: Vec<String> = doc["coverage"]["violation_signatures"].as_array().map(|a| a.iter().filter_map(|v| v["signature"].as_str().map(|s| s.to_string())).collect()).unwrap_or_default();
                    run.extra(
                        "wrapping_profile_run",
                        json!({"profile": "wrapping (overflow-checks = false, debug-assertions = false)", "evaluations": doc["coverage"]["evaluations"], "violation_signatures_in_wrapping_build": sigs,
                               "note": "verdict flips: signatures listed here that the checked build does not raise (or vice versa) exist only in one of the two builds"}),
                    );
                }
                None => run.note("wrapping-profile summary unreadable; comparison skipped"),
            }
        }
    }
    run.require(&[
        "class:empty",
        "class:singleton",
        "class:two-equal-values",
        "class:constant-data",
        "class:NaN-at-a-position",
        "class:+inf-at-a-position",
        "class:-inf-at-a-position",
        "class:zero-at-a-position",
        "class:negative-at-a-position",
        "class:MAX-at-a-position",
        "class:subnormal-at-a-position",
        "class:huge-magnitudes",
        "class:tiny-magnitudes",
        "class:too-few-observations-on-a-side",
        "class:both-samples-constant",
        "class:harmonic-reciprocal-CI-straddles-zero",
        "class:mismatched-lengths",
        "class:k>n",
        "class:huge-counts-k>n",
        "class:NaN-at-a-position-of-quantile-data",
        "class:k-in-{0,1}",
        "class:n-k-in-{0,1}",
        "class:n=0",
        "class:quantile-outside-(0,1)",
        "class:fewer-than-4-samples",
        "documented panic: Confidence constructor outside (0,1)",
        "documented panic: proportion::Stats::new with successes > population",
        "documented panic: interval +/- interval of incompatible kinds",
        "documented panic: relative_to a zero reference",
        "observed:Ok",
        "observed:Err",
    ]);
}
