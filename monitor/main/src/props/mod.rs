use sci_common::rt::Run;
use std::sync::Arc;

pub mod budget;
pub mod c01;
pub mod c02;
pub mod c03;
pub mod c04;
pub mod c05;
pub mod c06;
pub mod c07;
pub mod c08;
pub mod c20;
pub mod fl;
pub mod miri_lane;
pub mod purity;
pub mod c09;
pub mod c10;
pub mod c11;
pub mod c12;
pub mod c13;
pub mod c14;
pub mod c15;
pub mod c16;
pub mod c17;
pub mod c18;
pub mod c19;

pub fn dispatch(id: &str, run: &Arc<Run>) -> bool {
    match id {
        "C01" => c01::run(run),
        "C02" => c02::run(run),
        "C03" => c03::run(run),
        "C04" => c04::run(run),
        "C05" => c05::run(run),
        "C06" => c06::run(run),
        "C07" => c07::run(run),
        "C08" => c08::run(run),
        "C09" => c09::run(run),
        "C10" => c10::run(run),
        "C11" => c11::run(run),
        "C12" => c12::run(run),
        "C13" => c13::run(run),
        "C14" => c14::run(run),
        "C15" => c15::run(run),
        "C16" => c16::run(run),
        "C17" => c17::run(run),
        "C18" => c18::run(run),
        "C19" => c19::run(run),
        "C20" => c20::run(run),
        _ => return false,
    }
    true
}
