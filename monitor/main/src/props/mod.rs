use sci_common::rt::Run;
use std::sync::Arc;

pub mod c07;

pub fn dispatch(id: &str, run: &Arc<Run>) -> bool {
    match id {
        "C07" => c07::run(run),
        _ => return false,
    }
    true
}
