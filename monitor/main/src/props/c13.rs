//! C13 — interval arithmetic is sound and tight for the denoted sets.
//! Oracle: brute force over a lattice of members (the property statement itself) plus the
//! extended-real image model (apply to both ends, order them, unbounded side follows monotonicity).
use crate::model::{E, M};
use crate::props::c07::ikind;
use sci_common::rt::{caught, hash_str, mix, Local, Rng, Run};
use serde_json::{json, Value};
use stats_ci::Interval;
use std::sync::Arc;

/// numeric element abstraction: everything is carried as f64 (exact for the boxes used)
pub trait Num: Copy + PartialOrd + std::fmt::Debug + Send + Sync + 'static {
    const TY: &'static str;
    fn f(self) -> f64;
    fn of(x: f64) -> Self;
    fn add(self, o: Self) -> Self;
    fn sub(self, o: Self) -> Self;
    fn mul(self, o: Self) -> Self;
    fn div(self, o: Self) -> Self;
    fn neg(self) -> Self;
    fn iadd(i: Interval<Self>, k: Self) -> Interval<Self>;
    fn isub(i: Interval<Self>, k: Self) -> Interval<Self>;
    fn imul(i: Interval<Self>, k: Self) -> Interval<Self>;
    fn idiv(i: Interval<Self>, k: Self) -> Interval<Self>;
    fn ineg(i: Interval<Self>) -> Interval<Self>;
    fn iiadd(a: Interval<Self>, b: Interval<Self>) -> Interval<Self>;
    fn iisub(a: Interval<Self>, b: Interval<Self>) -> Interval<Self>;
}
macro_rules! impl_num {
    ($t:ty, $name:expr) => {
        impl Num for $t {
            const TY: &'static str = $name;
            fn f(self) -> f64 {
                self as f64
            }
            fn of(x: f64) -> Self {
                x as $t
            }
            fn add(self, o: Self) -> Self {
                self + o
            }
            fn sub(self, o: Self) -> Self {
                self - o
            }
            fn mul(self, o: Self) -> Self {
                self * o
            }
            fn div(self, o: Self) -> Self {
                self / o
            }
            fn neg(self) -> Self {
                -self
            }
            fn iadd(i: Interval<Self>, k: Self) -> Interval<Self> {
                i + k
            }
            fn isub(i: Interval<Self>, k: Self) -> Interval<Self> {
                i - k
            }
            fn imul(i: Interval<Self>, k: Self) -> Interval<Self> {
                i * k
            }
            fn idiv(i: Interval<Self>, k: Self) -> Interval<Self> {
                i / k
            }
            fn ineg(i: Interval<Self>) -> Interval<Self> {
                -i
            }
            fn iiadd(a: Interval<Self>, b: Interval<Self>) -> Interval<Self> {
                a + b
            }
            fn iisub(a: Interval<Self>, b: Interval<Self>) -> Interval<Self> {
                a - b
            }
        }
    };
}
impl Num for u32 {
    const TY: &'static str = "u32";
    fn f(self) -> f64 {
        self as f64
    }
    fn of(x: f64) -> Self {
        x as u32
    }
    fn add(self, o: Self) -> Self {
        self + o
    }
    fn sub(self, o: Self) -> Self {
        self - o
    }
    fn mul(self, o: Self) -> Self {
        self * o
    }
    fn div(self, o: Self) -> Self {
        self / o
    }
    fn neg(self) -> Self {
        unreachable!("no negation for unsigned")
    }
    fn iadd(i: Interval<Self>, k: Self) -> Interval<Self> {
        i + k
    }
    fn isub(i: Interval<Self>, k: Self) -> Interval<Self> {
        i - k
    }
    fn imul(i: Interval<Self>, k: Self) -> Interval<Self> {
        i * k
    }
    fn idiv(i: Interval<Self>, k: Self) -> Interval<Self> {
        i / k
    }
    fn ineg(_i: Interval<Self>) -> Interval<Self> {
        unreachable!("no negation for unsigned")
    }
    fn iiadd(a: Interval<Self>, b: Interval<Self>) -> Interval<Self> {
        a + b
    }
    fn iisub(a: Interval<Self>, b: Interval<Self>) -> Interval<Self> {
        a - b
    }
}
impl_num!(i32, "i32");
impl_num!(i64, "i64");
impl_num!(f64, "f64");
impl_num!(f32, "f32");

#[derive(Clone, Copy, Debug, PartialEq)]
enum Op {
    Add,
    Sub,
    Mul,
    Div,
    Neg,
}
impl Op {
    fn name(&self) -> &'static str {
        match self {
            Op::Add => "add(scalar)",
            Op::Sub => "sub(scalar)",
            Op::Mul => "mul(scalar)",
            Op::Div => "div(scalar)",
            Op::Neg => "neg",
        }
    }
    fn apply<T: Num>(&self, x: T, k: T) -> T {
        match self {
            Op::Add => x.add(k),
            Op::Sub => x.sub(k),
            Op::Mul => x.mul(k),
            Op::Div => x.div(k),
            Op::Neg => x.neg(),
        }
    }
    fn iapply<T: Num>(&self, i: Interval<T>, k: T) -> Interval<T> {
        match self {
            Op::Add => T::iadd(i, k),
            Op::Sub => T::isub(i, k),
            Op::Mul => T::imul(i, k),
            Op::Div => T::idiv(i, k),
            Op::Neg => T::ineg(i),
        }
    }
    /// +1 increasing, -1 decreasing, 0 constant (as a map of x for fixed k)
    fn direction(&self, k: f64) -> i32 {
        match self {
            Op::Add | Op::Sub => 1,
            Op::Neg => -1,
            Op::Mul | Op::Div => {
                if k > 0.0 {
                    1
                } else if k < 0.0 {
                    -1
                } else {
                    0
                }
            }
        }
    }
}

fn sign_class(k: f64) -> &'static str {
    if k > 0.0 {
        "k>0"
    } else if k < 0.0 {
        "k<0"
    } else {
        "k=0"
    }
}

fn mk<T: Num>(kind: u8, a: f64, b: f64) -> Interval<T> {
    match kind {
        0 => Interval::TwoSided(T::of(a), T::of(b)),
        1 => Interval::UpperOneSided(T::of(a)),
        _ => Interval::LowerOneSided(T::of(a)),
    }
}

fn jm<T: Num>(m: &M<T>) -> Value {
    let e = |x: &E<T>| match x {
        E::NegInf => "-inf".to_string(),
        E::PosInf => "+inf".to_string(),
        E::V(v) => format!("{:?}", v),
    };
    json!([e(&m.lo), e(&m.hi)])
}

/// expected image of A under the monotone map x -> op(x, k)
fn expected_scalar<T: Num>(op: Op, a: &Interval<T>, k: T) -> M<T> {
    let dir = op.direction(k.f());
    let ma = M::of(a);
    let img = |e: &E<T>, flip: bool| -> E<T> {
        match e {
            E::V(x) => E::V(op.apply(*x, k)),
            E::NegInf => {
                if flip {
                    E::PosInf
                } else {
                    E::NegInf
                }
            }
            E::PosInf => {
                if flip {
                    E::NegInf
                } else {
                    E::PosInf
                }
            }
        }
    };
    match dir {
        1 => M { lo: img(&ma.lo, false), hi: img(&ma.hi, false) },
        -1 => M { lo: img(&ma.hi, true), hi: img(&ma.lo, true) },
        _ => {
            // constant map: the image is the single point op(x, k) for any member x
            let x = ma.lo.val().or(ma.hi.val()).copied().unwrap();
            let p = op.apply(x, k);
            M { lo: E::V(p), hi: E::V(p) }
        }
    }
}

/// members of A on a lattice reaching into its unbounded side
fn members<T: Num>(a: &Interval<T>, lattice: &[f64]) -> Vec<T> {
    let m = M::of(a);
    lattice.iter().map(|x| T::of(*x)).filter(|x| m.contains(x)).collect()
}

fn judge_scalar<T: Num>(op: Op, a: Interval<T>, k: T, lattice: &[f64], case: &dyn Fn() -> Value, l: &mut Local) {
    let ka = ikind(&a);
    let sc = if op == Op::Neg { "-" } else { sign_class(k.f()) };
    let entry = format!("Interval::{}", op.name());
    let r = match caught(|| op.iapply(a, k)) {
        Ok(r) => r,
        Err(p) => {
            l.eval();
            l.violation(
                format!("{}|self={},{}|panic@{}", entry, ka, sc, p.location),
                format!("{} on a {} interval ({}) panics: {}", entry, ka, sc, p.message),
                case(),
                json!({"type": T::TY, "self": format!("{:?}", a), "k": format!("{:?}", k)}),
            );
            return;
        }
    };
    let mr = M::of(&r);
    let want = expected_scalar(op, &a, k);
    l.eval();
    let detail = |extra: Value| json!({"type": T::TY, "self": format!("{:?}", a), "k": format!("{:?}", k), "observed": format!("{:?}", r), "expected_set": jm(&want), "info": extra});
    // 1. well-formed
    if !mr.well_formed() {
        l.violation(
            format!("{}|self={},{}|inverted-result", entry, ka, sc),
            format!("{} on a {} interval ({}) returns an inverted interval (low > high)", entry, ka, sc),
            case(),
            detail(Value::Null),
        );
    }
    // 2. soundness by brute force: every lattice member maps into the result
    let mem = members(&a, lattice);
    let mut images = vec![];
    let mut reported = false;
    for x in mem.iter() {
        let y = op.apply(*x, k);
        images.push(y);
        if !r.contains(&y) && !reported {
            reported = true;
            l.violation(
                format!("{}|self={},{}|member-image-not-contained", entry, ka, sc),
                format!("{}: x in A but op(x) not in the result (self kind {}, {})", entry, ka, sc),
                case(),
                detail(json!({"x": format!("{:?}", x), "op(x)": format!("{:?}", y)})),
            );
        }
    }
    l.evals(mem.len() as u64);
    // 3. tightness: each finite bound of the result is attained by some member
    for (side, b) in [("low", r.left()), ("high", r.right())] {
        if let Some(b) = b {
            l.eval();
            if !images.iter().any(|y| y == b) {
                l.violation(
                    format!("{}|self={},{}|{}-bound-not-attained", entry, ka, sc, side),
                    format!("{}: the {} bound of the result is not the image of any member (self kind {}, {})", entry, side, ka, sc),
                    case(),
                    detail(json!({"bound": format!("{:?}", b)})),
                );
            }
        }
    }
    // 4. unbounded on exactly the side the true image is unbounded + same bounds as the model
    l.eval();
    if mr.lo.finite() != want.lo.finite() || mr.hi.finite() != want.hi.finite() {
        l.violation(
            format!("{}|self={},{}|result-kind={}", entry, ka, sc, ikind(&r)),
            format!("{} on a {} interval ({}) returns a {} interval: unbounded on the wrong side", entry, ka, sc, ikind(&r)),
            case(),
            detail(Value::Null),
        );
    } else if mr != want {
        l.violation(
            format!("{}|self={},{}|bounds-differ-from-image", entry, ka, sc),
            format!("{} on a {} interval ({}) returns bounds that are not the image of the end points", entry, ka, sc),
            case(),
            detail(Value::Null),
        );
    }
    l.count_s(format!("{}:{}:{}:{}", T::TY, op.name(), ka, sc));
    l.nontrivial(mix(&[hash_str(T::TY), hash_str(op.name()), hash_str(&format!("{:?}{:?}", a, k))]));
    let cls = format!("{}:{}:{}", op.name(), ka, sc);
    if l.wants_sample(&cls) {
        l.sample(&cls, || json!({"type": T::TY, "self": format!("{:?}", a), "k": format!("{:?}", k), "observed": format!("{:?}", r), "expected_set": jm(&want), "members_checked": mem.len()}));
    }
}

fn judge_pair<T: Num>(sub: bool, a: Interval<T>, b: Interval<T>, lattice: &[f64], case: &dyn Fn() -> Value, l: &mut Local) {
    let (ka, kb) = (ikind(&a), ikind(&b));
    let entry = if sub { "Interval::sub(interval)" } else { "Interval::add(interval)" };
    let (ma, mb) = (M::of(&a), M::of(&b));
    // true image: [lo_a op .., hi_a op ..]; unbounded where a term is unbounded. "all values" when
    // both sides become unbounded is the documented panic.
    let f = |x: T, y: T| if sub { x.sub(y) } else { x.add(y) };
    let (blo, bhi) = if sub { (mb.hi.clone(), mb.lo.clone()) } else { (mb.lo.clone(), mb.hi.clone()) };
    let comb = |x: &E<T>, y: &E<T>, neg_side: bool| -> E<T> {
        match (x, y) {
            (E::V(x), E::V(y)) => E::V(f(*x, *y)),
            _ => {
                if neg_side {
                    E::NegInf
                } else {
                    E::PosInf
                }
            }
        }
    };
    let want = M { lo: comb(&ma.lo, &blo, true), hi: comb(&ma.hi, &bhi, false) };
    let all_values = !want.lo.finite() && !want.hi.finite();
    let out = caught(|| if sub { T::iisub(a, b) } else { T::iiadd(a, b) });
    l.eval();
    l.count_s(format!("{}:{}:{}x{}", T::TY, if sub { "sub(interval)" } else { "add(interval)" }, ka, kb));
    l.nontrivial(mix(&[hash_str(T::TY), sub as u64, hash_str(&format!("{:?}{:?}", a, b))]));
    let detail = |obs: String, extra: Value| json!({"type": T::TY, "self": format!("{:?}", a), "other": format!("{:?}", b), "observed": obs, "expected_set": jm(&want), "info": extra});
    match out {
        Err(p) => {
            if all_values {
                l.count("documented-panic(incompatible one-sided kinds)");
            } else {
                l.violation(
                    format!("{}|{}x{}|panic@{}", entry, ka, kb, p.location),
                    format!("{} panics for compatible kinds ({}, {}): {}", entry, ka, kb, p.message),
                    case(),
                    detail("panic".into(), Value::Null),
                );
            }
        }
        Ok(r) => {
            if all_values {
                l.violation(
                    format!("{}|{}x{}|no-panic-for-all-values", entry, ka, kb),
                    format!("{} of kinds ({}, {}) is the whole line: documented to panic, returned {:?}", entry, ka, kb, r),
                    case(),
                    detail(format!("{:?}", r), Value::Null),
                );
                return;
            }
            let mr = M::of(&r);
            if !mr.well_formed() {
                l.violation(format!("{}|{}x{}|inverted-result", entry, ka, kb), format!("{} returns an inverted interval", entry), case(), detail(format!("{:?}", r), Value::Null));
            }
            // brute force
            let (xs, ys) = (members(&a, lattice), members(&b, lattice));
            let mut images = vec![];
            let mut bad = None;
            for x in xs.iter() {
                for y in ys.iter() {
                    let z = f(*x, *y);
                    if !r.contains(&z) && bad.is_none() {
                        bad = Some((*x, *y, z));
                    }
                    images.push(z);
                }
            }
            l.evals(images.len() as u64);
            if let Some((x, y, z)) = bad {
                l.violation(
                    format!("{}|{}x{}|member-image-not-contained", entry, ka, kb),
                    format!("{}: x in A, y in B but x op y not in the result (kinds {}, {})", entry, ka, kb),
                    case(),
                    detail(format!("{:?}", r), json!({"x": format!("{:?}", x), "y": format!("{:?}", y), "x op y": format!("{:?}", z)})),
                );
            }
            for (side, bnd) in [("low", r.left()), ("high", r.right())] {
                if let Some(bnd) = bnd {
                    if !images.iter().any(|z| z == bnd) {
                        l.violation(
                            format!("{}|{}x{}|{}-bound-not-attained", entry, ka, kb, side),
                            format!("{}: the {} bound is not attained by any pair of members (kinds {}, {})", entry, side, ka, kb),
                            case(),
                            detail(format!("{:?}", r), Value::Null),
                        );
                    }
                }
            }
            if mr != want {
                l.violation(
                    format!("{}|{}x{}|differs-from-image", entry, ka, kb),
                    format!("{} of kinds ({}, {}) is not the image set", entry, ka, kb),
                    case(),
                    detail(format!("{:?}", r), Value::Null),
                );
            }
            let cls = format!("{}:{}x{}", entry, ka, kb);
            if l.wants_sample(&cls) {
                l.sample(&cls, || detail(format!("{:?}", r), json!({"pairs_checked": images.len()})));
            }
        }
    }
}

fn judge_relative<T: Num + num_traits::Float>(s: Interval<T>, r: Interval<T>, case: &dyn Fn() -> Value, l: &mut Local, slack_ulps: f64) {
    let (ks, kr) = (ikind(&s), ikind(&r));
    let entry = "Interval::relative_to";
    l.eval();
    l.count_s(format!("{}:relative_to:self={},ref={}", T::TY, ks, kr));
    l.nontrivial(mix(&[hash_str(T::TY), 77, hash_str(&format!("{:?}{:?}", s, r))]));
    let out = caught(|| s.relative_to(&r));
    let same_dir = s.is_upper() && r.is_upper();
    let detail = |obs: String, extra: Value| json!({"type": T::TY, "self": format!("{:?}", s), "reference": format!("{:?}", r), "observed": obs, "info": extra});
    let res = match out {
        Err(p) => {
            if same_dir {
                l.count("documented-panic(same-direction reference)");
            } else {
                l.violation(format!("{}|self={},ref={}|panic@{}", entry, ks, kr, p.location), format!("relative_to panics for (self {}, reference {}): {}", ks, kr, p.message), case(), detail("panic".into(), Value::Null));
            }
            return;
        }
        Ok(v) => v,
    };
    if same_dir {
        l.violation(format!("{}|self={},ref={}|no-panic", entry, ks, kr), "relative_to with a same-direction one-sided reference is documented to panic".to_string(), case(), detail(format!("{:?}", res), Value::Null));
        return;
    }
    // members: end points plus a few interior / far points
    let pts = |i: &Interval<T>| -> Vec<f64> {
        let m = M::of(i);
        let lo = m.lo.val().map(|v| v.f());
        let hi = m.hi.val().map(|v| v.f());
        match (lo, hi) {
            (Some(a), Some(b)) => vec![a, b, 0.5 * (a + b), a + 0.25 * (b - a)],
            (Some(a), None) => vec![a, a + 1.0, a * 2.0 + 3.0, a + 1e6],
            (None, Some(b)) => vec![b, b - 1.0, b - 1e6],
            _ => vec![],
        }
    };
    // (x-r)/r evaluated in floating point from representable x and r carries two roundings: the
    // tolerance is relative to the bound itself (a bound of 1e-10 must be right to ~1e-25, not 1e-15)
    let tol = |b: f64| slack_ulps * f64::EPSILON * b.abs() + f64::MIN_POSITIVE;
    let mres = M::of(&res);
    if !mres.well_formed() {
        l.violation(format!("{}|self={},ref={}|inverted-result", entry, ks, kr), "relative_to returns an inverted interval".to_string(), case(), detail(format!("{:?}", res), Value::Null));
    }
    let mut vals = vec![];
    for x in pts(&s) {
        for rr in pts(&r) {
            let v = (x - rr) / rr;
            vals.push(v);
            l.eval();
            // enclosure with a few ulps of slack (floating evaluation of (x-r)/r)
            let lo_ok = match mres.lo.val() {
                Some(b) => v >= b.f() - tol(b.f()),
                None => true,
            };
            let hi_ok = match mres.hi.val() {
                Some(b) => v <= b.f() + tol(b.f()),
                None => true,
            };
            if !(lo_ok && hi_ok) {
                l.violation(
                    format!("{}|self={},ref={}|not-enclosing", entry, ks, kr),
                    format!("relative_to does not enclose (x-r)/r for members x, r (self {}, reference {})", ks, kr),
                    case(),
                    detail(format!("{:?}", res), json!({"x": x, "r": rr, "(x-r)/r": v})),
                );
            }
        }
    }
    for (side, b) in [("low", mres.lo.val()), ("high", mres.hi.val())] {
        if let Some(b) = b {
            let b = b.f();
            if !vals.iter().any(|v| (v - b).abs() <= tol(b)) {
                l.violation(
                    format!("{}|self={},ref={}|{}-bound-not-attained", entry, ks, kr, side),
                    format!("relative_to: the {} bound is not attained at any pair of end points (self {}, reference {})", side, ks, kr),
                    case(),
                    detail(format!("{:?}", res), Value::Null),
                );
            }
        }
    }
    let cls = format!("relative_to:{}x{}", ks, kr);
    if l.wants_sample(&cls) {
        l.sample(&cls, || detail(format!("{:?}", res), json!({"values_checked": vals.len()})));
    }
    // a relative change has no unit: scaling self and reference by the same power of two (no overflow,
    // no underflow) must give the same interval bit for bit, however small or large the reference is
    let exps: &[i32] = if T::TY == "f32" { &[-100, -24, -20, 60] } else { &[-900, -60, -52, -30, 40, 900] };
    for &e in exps {
        let f = T::of(2f64.powi(e));
        let sc = |i: &Interval<T>| -> Interval<T> {
            match i {
                Interval::TwoSided(a, b) => Interval::TwoSided(*a * f, *b * f),
                Interval::UpperOneSided(a) => Interval::UpperOneSided(*a * f),
                Interval::LowerOneSided(b) => Interval::LowerOneSided(*b * f),
            }
        };
        let (s2, r2) = (sc(&s), sc(&r));
        // the scaled reference must stay strictly positive and finite
        let fin = |i: &Interval<T>| M::of(i).lo.val().map(|v| v.f().is_finite() && v.f() > 0.0 || v.f() == 0.0).unwrap_or(true) && M::of(i).hi.val().map(|v| v.f().is_finite()).unwrap_or(true);
        let r_pos = M::of(&r2).lo.val().map(|v| v.f() >= f64::MIN_POSITIVE * 1e10 && (T::TY != "f32" || v.f() >= 1e-30)).unwrap_or(false);
        let exact = |a: &Interval<T>, b: &Interval<T>| -> bool {
            // scaling was exact: scaling back reproduces the original
            let g = T::of(2f64.powi(-e));
            match (a, b) {
                (Interval::TwoSided(x, y), Interval::TwoSided(p, q)) => *x * g == *p && *y * g == *q,
                (Interval::UpperOneSided(x), Interval::UpperOneSided(p)) => *x * g == *p,
                (Interval::LowerOneSided(x), Interval::LowerOneSided(p)) => *x * g == *p,
                _ => false,
            }
        };
        if !(fin(&s2) && fin(&r2) && r_pos && exact(&s2, &s) && exact(&r2, &r)) {
            continue;
        }
        l.eval();
        l.count("relative_to scale invariance judged");
        match caught(|| s2.relative_to(&r2)) {
            Ok(v) if format!("{:?}", v) == format!("{:?}", res) => {}
            Ok(v) => l.violation(format!("{}|self={},ref={}|not-scale-invariant", entry, ks, kr), "relative_to changes when self and reference are scaled by the same power of two".to_string(), case(), detail(format!("{:?}", res), json!({"exponent": e, "scaled_result": format!("{:?}", v)}))),
            Err(p) => l.violation(format!("{}|self={},ref={}|panic-on-scaled-operands@{}", entry, ks, kr, p.location), format!("relative_to panics for a strictly positive reference once both operands are scaled by 2^{}: {}", e, p.message), case(), detail(format!("{:?}", res), json!({"exponent": e}))),
        }
    }
}

/// enumerate the box: bounds lo..=hi step `step`
fn box_intervals(lo: f64, hi: f64, step: f64) -> Vec<(u8, f64, f64)> {
    let mut pts = vec![];
    let mut x = lo;
    while x <= hi + 1e-9 {
        pts.push(x);
        x += step;
    }
    let mut v = vec![];
    for (i, a) in pts.iter().enumerate() {
        for b in pts[i..].iter() {
            v.push((0u8, *a, *b));
        }
    }
    for a in pts.iter() {
        v.push((1u8, *a, 0.0));
    }
    for a in pts.iter() {
        v.push((2u8, *a, 0.0));
    }
    v
}

fn sweep<T: Num>(run: &Arc<Run>, step: f64, scalars: &[f64], div_scalars: &[f64]) {
    let ivs = box_intervals(-4.0, 4.0, step);
    let lattice: Vec<f64> = {
        let mut v = vec![];
        let mut x = -12.0;
        while x <= 12.0 {
            v.push(x);
            x += 0.5f64.min(step);
        }
        v
    };
    let ops = [Op::Add, Op::Sub, Op::Mul, Op::Div, Op::Neg];
    // scalar operators
    let mut items: Vec<(usize, usize, f64)> = vec![];
    for (oi, op) in ops.iter().enumerate() {
        let ks: Vec<f64> = match op {
            Op::Div => div_scalars.to_vec(),
            Op::Neg => vec![0.0],
            _ => scalars.to_vec(),
        };
        for ii in 0..ivs.len() {
            for k in ks.iter() {
                items.push((oi, ii, *k));
            }
        }
    }
    if let Some(case) = &run.replay_case {
        if case["ty"] == T::TY {
            let mut l = run.local();
            let iv = |v: &Value| mk::<T>(v[0].as_u64().unwrap() as u8, v[1].as_f64().unwrap(), v[2].as_f64().unwrap());
            match case["what"].as_str().unwrap_or("") {
                "scalar" => {
                    let op = ops[case["op"].as_u64().unwrap() as usize];
                    judge_scalar::<T>(op, iv(&case["a"]), T::of(case["k"].as_f64().unwrap()), &lattice, &|| case.clone(), &mut l)
                }
                "pair" => judge_pair::<T>(case["sub"].as_bool().unwrap(), iv(&case["a"]), iv(&case["b"]), &lattice, &|| case.clone(), &mut l),
                _ => {}
            }
            run.absorb(l);
        }
        return;
    }
    run.par(items.len() as u64, |i, l| {
        let (oi, ii, k) = items[i as usize];
        let (kind, a, b) = ivs[ii];
        judge_scalar::<T>(ops[oi], mk::<T>(kind, a, b), T::of(k), &lattice, &|| json!({"ty": T::TY, "what": "scalar", "op": oi, "a": [kind, a, b], "k": k}), l);
    });
    // interval op interval
    let n = ivs.len() as u64;
    run.par(2 * n * n, |i, l| {
        let sub = i >= n * n;
        let j = i % (n * n);
        let (ka, a1, a2) = ivs[(j / n) as usize];
        let (kb, b1, b2) = ivs[(j % n) as usize];
        judge_pair::<T>(sub, mk::<T>(ka, a1, a2), mk::<T>(kb, b1, b2), &lattice, &|| json!({"ty": T::TY, "what": "pair", "sub": sub, "a": [ka, a1, a2], "b": [kb, b1, b2]}), l);
    });
}

fn relative_sweep(run: &Arc<Run>) {
    // self in {two-sided, upper} with lo >= 0; reference in {two-sided, upper} with lo > 0; dyadic values
    let vals: Vec<f64> = (0..=8).map(|i| i as f64 * 0.5).collect();
    let mut selfs = vec![];
    for (i, a) in vals.iter().enumerate() {
        for b in vals[i..].iter() {
            selfs.push((0u8, *a, *b));
        }
        selfs.push((1u8, *a, 0.0));
    }
    let refs: Vec<(u8, f64, f64)> = selfs.iter().filter(|(_, a, _)| *a > 0.0).cloned().collect();
    let ns = selfs.len() as u64;
    let nr = refs.len() as u64;
    if let Some(case) = &run.replay_case {
        if case["what"] == "relative" {
            let mut l = run.local();
            let iv = |v: &Value| mk::<f64>(v[0].as_u64().unwrap() as u8, v[1].as_f64().unwrap(), v[2].as_f64().unwrap());
            judge_relative::<f64>(iv(&case["a"]), iv(&case["b"]), &|| case.clone(), &mut l, 8.0);
            run.absorb(l);
        }
        return;
    }
    run.par(ns * nr, |i, l| {
        let (ka, a1, a2) = selfs[(i / nr) as usize];
        let (kb, b1, b2) = refs[(i % nr) as usize];
        let case = || json!({"ty": "f64", "what": "relative", "a": [ka, a1, a2], "b": [kb, b1, b2]});
        judge_relative::<f64>(mk::<f64>(ka, a1, a2), mk::<f64>(kb, b1, b2), &case, l, 8.0);
        judge_relative::<f32>(mk::<f32>(ka, a1, a2), mk::<f32>(kb, b1, b2), &case, l, 8.0 * 2f64.powi(29));
    });
    // random positive intervals
    let nrand = run.cfg.by(20_000u64, 2_000_000);
    let seed = run.cfg.seed;
    run.par(nrand, |i, l| {
        let mut r = Rng::from(&[seed, 0xc13, i]);
        let g = |r: &mut Rng| -> (u8, f64, f64) {
            let a = r.uniform(0.0, 10.0) * *r.pick(&[1.0, 1e-3, 1e3]);
            let b = a + r.uniform(0.0, 10.0);
            (r.below(2) as u8, a, b)
        };
        let mut s = g(&mut r);
        let mut rf = g(&mut r);
        if rf.1 == 0.0 {
            rf.1 = 0.5;
            rf.2 += 0.5;
        }
        if i % 4 == 1 {
            // a change of a few ulps: self sits just above / below the reference (tiny relative changes
            // are where (x-r)/r and a rearranged formula part ways)
            let up = |v: f64, k: u64| f64::from_bits(v.to_bits() + k);
            if i % 8 == 1 {
                rf.2 = rf.1;
            }
            s.1 = up(rf.1, r.below(4));
            s.2 = up(rf.2.max(s.1), r.below(6));
            l.count("relative_to: self within a few ulps of the reference");
        }
        let case = || json!({"ty": "f64", "what": "relative", "a": [s.0, s.1, s.2], "b": [rf.0, rf.1, rf.2]});
        judge_relative::<f64>(mk::<f64>(s.0, s.1, s.2), mk::<f64>(rf.0, rf.1, rf.2), &case, l, 8.0);
    });
}

/// unsigned sweep: bounds 0..8; every operation whose exact result is non-negative
fn unsigned_sweep(run: &Arc<Run>) {
    if run.replay_case.as_ref().map(|c| c["ty"] != "u32").unwrap_or(false) {
        return;
    }
    let mut ivs: Vec<(u8, f64, f64)> = vec![];
    for a in 0..=8 {
        for b in a..=8 {
            ivs.push((0, a as f64, b as f64));
        }
        ivs.push((1, a as f64, 0.0));
        ivs.push((2, a as f64, 0.0));
    }
    let lattice: Vec<f64> = (0..=24).map(|x| x as f64).collect();
    let n = ivs.len() as u64;
    if let Some(case) = &run.replay_case {
        let mut l = run.local();
        let iv = |v: &Value| mk::<u32>(v[0].as_u64().unwrap() as u8, v[1].as_f64().unwrap(), v[2].as_f64().unwrap());
        if case["what"] == "pair" {
            judge_pair::<u32>(case["sub"].as_bool().unwrap(), iv(&case["a"]), iv(&case["b"]), &lattice, &|| case.clone(), &mut l);
        } else if case["what"] == "scalar" {
            let op = [Op::Add, Op::Sub, Op::Mul, Op::Div][case["op"].as_u64().unwrap() as usize];
            judge_scalar::<u32>(op, iv(&case["a"]), case["k"].as_f64().unwrap() as u32, &lattice, &|| case.clone(), &mut l);
        }
        run.absorb(l);
        return;
    }
    run.par(n * n, |i, l| {
        let (ka, a1, a2) = ivs[(i / n) as usize];
        let (kb, b1, b2) = ivs[(i % n) as usize];
        // addition: always representable. subtraction: only when every member of A is >= every member of B
        judge_pair::<u32>(false, mk::<u32>(ka, a1, a2), mk::<u32>(kb, b1, b2), &lattice, &|| json!({"ty": "u32", "what": "pair", "sub": false, "a": [ka, a1, a2], "b": [kb, b1, b2]}), l);
        let b_hi = if kb == 0 { Some(b2) } else if kb == 2 { Some(b1) } else { None };
        let a_lo = if ka == 2 { None } else { Some(a1) };
        if let (Some(alo), Some(bhi)) = (a_lo, b_hi) {
            if alo >= bhi && kb != 2 {
                l.count("unsigned subtraction judged");
                judge_pair::<u32>(true, mk::<u32>(ka, a1, a2), mk::<u32>(kb, b1, b2), &lattice, &|| json!({"ty": "u32", "what": "pair", "sub": true, "a": [ka, a1, a2], "b": [kb, b1, b2]}), l);
            }
        }
    });
    let ops = [Op::Add, Op::Sub, Op::Mul, Op::Div];
    run.par(n * 4 * 5, |i, l| {
        let (kind, a, b) = ivs[(i % n) as usize];
        let oi = ((i / n) % 4) as usize;
        let k = (i / (4 * n)) as u32; // 0..4
        if (ops[oi] == Op::Div && k == 0) || (ops[oi] == Op::Sub && (kind == 2 || (a as u32) < k)) {
            return;
        }
        judge_scalar::<u32>(ops[oi], mk::<u32>(kind, a, b), k, &lattice, &|| json!({"ty": "u32", "what": "scalar", "op": oi, "a": [kind, a, b], "k": k}), l);
    });
}

pub fn run(run: &Arc<Run>) {
    unsigned_sweep(run);
    run.set_rule(
        "exhaustive over the box: bounds -4..4 (i32, i64: step 1; f64, f32: step 0.5, all operations exact; u32: bounds 0..8 and only operations whose exact result is non-negative), all three kinds, scalars -3..3 (non-zero powers of two for float division, non-zero integers for integer division), \
         all kind pairs for interval+interval / interval-interval (the two documented panics must be panics), relative_to over non-negative self x strictly positive reference (dyadic grid + seeded random incl. self within a few ulps of the reference; bounds judged to a relative 8 ulps; each case repeated with both operands scaled by 2^-900..2^900, bit-identical result required). \
         Each result is judged by brute force over the lattice -12..12 (members of A (and B) must map into the result; each finite result bound must be attained; unbounded exactly where the image is) and against the end-point image model. \
         distinct = distinct (type, operator, operands) fingerprints; all are non-trivial.",
    );
    run.set_exhaustive(true);
    run.assume("no NaN bounds; integer operands small enough not to overflow; division by zero is outside the quantifier");
    let ints: Vec<f64> = (-3..=3).map(|x| x as f64).collect();
    let ints_nz: Vec<f64> = ints.iter().cloned().filter(|x| *x != 0.0).collect();
    sweep::<i32>(run, 1.0, &ints, &ints_nz);
    sweep::<i64>(run, 1.0, &ints, &ints_nz);
    let fl: Vec<f64> = vec![-3.0, -2.0, -1.5, -1.0, -0.5, 0.0, 0.5, 1.0, 1.5, 2.0, 3.0];
    let fl_div: Vec<f64> = vec![-4.0, -2.0, -1.0, -0.5, 0.5, 1.0, 2.0, 4.0];
    sweep::<f64>(run, 0.5, &fl, &fl_div);
    sweep::<f32>(run, 0.5, &fl, &fl_div);
    relative_sweep(run);
    if run.replay_case.is_some() {
        return;
    }
    let mut req: Vec<String> = vec![];
    for ty in ["i32", "f64"] {
        for op in ["add(scalar)", "sub(scalar)", "mul(scalar)", "div(scalar)"] {
            for k in ["TwoSided", "UpperOneSided", "LowerOneSided"] {
                for s in ["k>0", "k<0"] {
                    req.push(format!("{}:{}:{}:{}", ty, op, k, s));
                }
            }
        }
        for k in ["TwoSided", "UpperOneSided", "LowerOneSided"] {
            req.push(format!("{}:neg:{}:-", ty, k));
        }
    }
    req.push("unsigned subtraction judged".into());
    req.push("documented-panic(incompatible one-sided kinds)".into());
    req.push("documented-panic(same-direction reference)".into());
    req.push("relative_to scale invariance judged".into());
    req.push("relative_to: self within a few ulps of the reference".into());
    let r: Vec<&str> = req.iter().map(|s| s.as_str()).collect();
    run.require(&r);
}
