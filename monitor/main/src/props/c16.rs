//! C16 — mean / comparison CIs are equivariant under scaling, negation, shift, reordering.
use crate::api::{call, conf, Obs, Out};
use crate::props::budget::{expected_mean_ci, in_domain};
use crate::props::c04::{unpaired_expected, unpaired_ref};
use crate::props::fl::{conv, Fl};
use sci_common::exact::{stats_f64, ulps_apart32, ulps_apart64};
use sci_common::gen::{level_grid, permutations, sample, Family, Kind, Spec, KINDS, POSITIVE_FAMILIES, REAL_FAMILIES};
use sci_common::rt::{hash_f64s, mix, Local, Rng, Run};
use serde::{Deserialize, Serialize};
use serde_json::{json, Value};
use stats_ci::comparison::{Paired, Unpaired};
use stats_ci::mean::{Arithmetic, Geometric, Harmonic};
use std::sync::Arc;

#[derive(Clone, Copy, Debug, Serialize, Deserialize, PartialEq)]
pub enum Prod {
    Arithmetic,
    Paired,
    Unpaired,
    Geometric,
    Harmonic,
}

#[derive(Clone, Debug, Serialize, Deserialize)]
pub struct Case {
    pub prod: Prod,
    pub a: Spec,
    pub b: Spec,
    pub confs: Vec<(Kind, f64)>,
    pub tseed: u64,
    /// unpaired only: sample b is a reordering of sample a plus a constant (equal sizes and spreads:
    /// the effective degrees of freedom are mathematically an integer)
    #[serde(default)]
    pub balanced: bool,
}

fn ci_of<F: Fl>(p: Prod, kind: Kind, level: f64, a: &Vec<F>, b: &Vec<F>) -> Out<Obs> {
    let c = conf(kind, level);
    match p {
        Prod::Arithmetic => call(|| Arithmetic::<F>::ci(c, a)),
        Prod::Paired => call(|| Paired::<F>::ci(c, a, b)),
        Prod::Unpaired => call(|| Unpaired::<F>::ci(c, a, b)),
        Prod::Geometric => call(|| Geometric::<F>::ci(c, a)),
        Prod::Harmonic => call(|| Harmonic::<F>::ci(c, a)),
    }
    .map(|i| F::obs(&i))
}

/// The same interval from a state assembled observation by observation with `+`, the accumulated state on the right
/// (`single + total`): the way a fold over per-item states builds it. Reordering the observations must not matter for a
/// state built this way either.
fn ci_folded<F: Fl>(p: Prod, kind: Kind, level: f64, a: &Vec<F>, b: &Vec<F>) -> Out<Obs> {
    let c = conf(kind, level);
    match p {
        Prod::Arithmetic => call(|| {
            let mut tot = Arithmetic::<F>::new();
            for x in a.iter() {
                let mut s = Arithmetic::<F>::new();
                stats_ci::StatisticsOps::append(&mut s, *x)?;
                tot = s + tot;
            }
            tot.ci_mean(c)
        }),
        Prod::Unpaired => call(|| {
            let mut tot = Unpaired::<F>::default();
            for x in a.iter() {
                let mut s = Unpaired::<F>::default();
                s.append_a(*x)?;
                tot = s + tot;
            }
            for y in b.iter() {
                let mut s = Unpaired::<F>::default();
                s.append_b(*y)?;
                tot = s + tot;
            }
            tot.ci_mean(c)
        }),
        _ => return ci_of::<F>(p, kind, level, a, b),
    }
    .map(|i| F::obs(&i))
}

fn ulps<F: Fl>(a: f64, b: f64) -> u64 {
    if a == b {
        return 0;
    }
    if !a.is_finite() || !b.is_finite() {
        return u64::MAX;
    }
    if F::IS32 {
        ulps_apart32(a as f32, b as f32)
    } else {
        ulps_apart64(a, b)
    }
}

/// exponent range [emin, emax] such that x*2^e and (x*2^e)^2, their sums over n terms, variances
/// after cancellation and compensation terms all stay normal: exact scaling is then an IEEE
/// consequence for any implementation built on sums of x and x^2.
fn exp_range<F: Fl>(vals: &[f64], n: usize) -> Option<(i32, i32)> {
    let mut lo = f64::INFINITY;
    let mut hi: f64 = 0.0;
    for v in vals {
        let a = v.abs();
        if a > 0.0 {
            lo = lo.min(a);
            hi = hi.max(a);
        }
    }
    if !(hi > 0.0) {
        return None;
    }
    let (b_lo, b_hi) = (lo.log2().floor() as i32, hi.log2().ceil() as i32);
    let (max_e, min_e, head_lo) = if F::IS32 { (127, -126, 40) } else { (1023, -1022, 110) };
    let head_hi = (n as f64).log2().ceil() as i32 + 4;
    // 2*(b_hi + e) + head_hi <= max_e ; 2*(b_lo + e) - head_lo >= min_e
    let emax = (max_e - head_hi) / 2 - b_hi;
    let emin = (min_e + head_lo + 1) / 2 - b_lo;
    if emin > emax {
        None
    } else {
        Some((emin, emax))
    }
}

fn scale<F: Fl>(v: &Vec<F>, e: i32) -> Vec<F> {
    let k = 2f64.powi(e.clamp(-1000, 1000));
    v.iter().map(|x| F::of(x.f() * k)).collect()
}

fn judge<F: Fl>(c: &Case, l: &mut Local) {
    let positive = matches!(c.prod, Prod::Geometric | Prod::Harmonic);
    let a64 = sample(&c.a);
    let mut bs = c.b.clone();
    if c.prod == Prod::Paired {
        bs.n = c.a.n;
    }
    let mut b64 = if matches!(c.prod, Prod::Paired | Prod::Unpaired) { sample(&bs) } else { vec![] };
    if c.balanced && c.prod == Prod::Unpaired {
        let mut rr = Rng::from(&[c.tseed, 0xba1]);
        b64 = a64.iter().map(|x| (F::of(*x) + F::of(8.0)).f()).collect();
        rr.shuffle(&mut b64);
        l.count("balanced unpaired design (integer effective dof)");
    }
    let a: Vec<F> = conv(&a64);
    let b: Vec<F> = conv(&b64);
    let case = || serde_json::to_value(c).unwrap();
    let mut r = Rng::from(&[c.tseed, 0x16]);
    let pname = format!("{:?}", c.prod);
    let all64: Vec<f64> = a64.iter().chain(b64.iter()).cloned().collect();
    let n_tot = all64.len();
    // base intervals
    let base: Vec<Out<Obs>> = c.confs.iter().map(|(k, lv)| ci_of::<F>(c.prod, *k, *lv, &a, &b)).collect();
    let usable = |o: &Out<Obs>| matches!(o, Out::Ok(x) if !x.has_nan());
    if !base.iter().any(usable) {
        l.count("base interval unavailable (degenerate; left to C11)");
        return;
    }
    l.nontrivial(mix(&[hash_f64s(&all64[..n_tot.min(48)]), n_tot as u64, F::IS32 as u64, c.prod as u64, c.tseed]));
    l.count_s(format!("{}:{}", F::TY, pname));

    // ---- (1) power-of-two scaling
    // the sums the producer forms are over x (arithmetic family), 1/x (harmonic) or ln x (geometric)
    let range = match c.prod {
        Prod::Harmonic => {
            let rec: Vec<f64> = a.iter().map(|x| (F::one() / *x).f()).collect();
            exp_range::<F>(&rec, n_tot).map(|(lo, hi)| (-hi, -lo))
        }
        Prod::Geometric => {
            // only x * 2^e itself has to stay normal
            let (mut lo, mut hi) = (f64::INFINITY, 0.0f64);
            for v in all64.iter() {
                lo = lo.min(v.abs());
                hi = hi.max(v.abs());
            }
            let (max_e, min_e) = if F::IS32 { (127, -126) } else { (1023, -1022) };
            Some((min_e + 2 - lo.log2().floor() as i32, max_e - 2 - hi.log2().ceil() as i32))
        }
        _ => exp_range::<F>(&all64, n_tot),
    };
    // geometric: the relation is shift-equivariance in log space; its budget is that of the
    // arithmetic CI of the logarithms (both data sets), plus one rounding u*|ln x| per logarithm
    let log_tol = |data: &[F], kind: Kind, level: f64| -> Option<f64> {
        let logs: Vec<f64> = data.iter().map(|x| x.ln().f()).collect();
        let st = stats_f64(&logs);
        if !in_domain(&st, F::U) {
            return None;
        }
        let lmax = logs.iter().fold(0.0f64, |m, x| m.max(x.abs()));
        let e = expected_mean_ci(&st, F::U, kind, level);
        let cc = e.cands.iter().map(|x| x.4.abs()).fold(0.0, f64::max);
        let t = e.cands.iter().map(|x| x.2).fold(0.0, f64::max);
        Some(t + 2.0 * F::U * lmax * (1.0 + 1.5 * cc / (st.n as f64).sqrt()))
    };
    if let Some((emin, emax)) = range.filter(|(lo, hi)| lo <= hi) {
        let mut es: Vec<i32> = vec![emin, emax, 1, -1, (emin + emax) / 2];
        for _ in 0..5 {
            es.push(r.range(emin as i64, emax as i64) as i32);
        }
        es.sort();
        es.dedup();
        for e in es {
            let (sa, sb) = (scale(&a, e), scale(&b, e));
            let k = 2f64.powi(e.clamp(-1000, 1000));
            for (ci, (kind, level)) in c.confs.iter().enumerate() {
                let o = match &base[ci] {
                    Out::Ok(o) if !o.has_nan() => *o,
                    _ => continue,
                };
                let (wl, wh) = (o.lo * k, o.hi * k);
                // the relation is about representable results: skip bounds that leave the normal range
                let min_norm = if F::IS32 { f32::MIN_POSITIVE as f64 } else { f64::MIN_POSITIVE };
                let max_fin = if F::IS32 { f32::MAX as f64 } else { f64::MAX };
                let normal = |v: f64, side_inf: bool| (side_inf && v.is_infinite()) || (v == 0.0 && !positive) || (v.abs() >= min_norm * 4.0 && v.abs() <= max_fin / 4.0);
                if !(normal(o.lo, o.kind == Kind::Lower) && normal(o.hi, o.kind == Kind::Upper) && normal(wl, o.kind == Kind::Lower) && normal(wh, o.kind == Kind::Upper)) {
                    l.count("scaling: a bound leaves the normal range (skipped)");
                    continue;
                }
                let s = ci_of::<F>(c.prod, *kind, *level, &sa, &sb);
                l.eval();
                l.count("scaling judged");
                let ok = match &s {
                    Out::Ok(s) => {
                        if s.kind != o.kind {
                            false
                        } else if c.prod == Prod::Geometric {
                            match (log_tol(&a, *kind, *level), log_tol(&sa, *kind, *level)) {
                                (Some(t0), Some(t1)) => {
                                    let rel = t0 + t1 + 8.0 * F::U;
                                    let okb = |g: f64, w: f64| (g == w) || ((g / w).ln().abs() <= rel);
                                    let q = |g: f64, w: f64| if g == w { 0.0 } else { (g / w).ln().abs() / rel };
                                    l.max("geometric_scaling_log_err_over_budget", q(s.lo, wl).max(q(s.hi, wh)));
                                    l.count("geometric scaling judged");
                                    okb(s.lo, wl) && okb(s.hi, wh)
                                }
                                _ => {
                                    l.count("geometric scaling outside the log-space conditioning domain (skipped)");
                                    true
                                }
                            }
                        } else if c.prod == Prod::Harmonic {
                            ulps::<F>(s.lo, wl) <= 8 && ulps::<F>(s.hi, wh) <= 8
                        } else {
                            s.lo == wl && s.hi == wh
                        }
                    }
                    _ => false,
                };
                if !ok {
                    l.violation(
                        format!("{}|{}|scaling-by-power-of-two|{}", pname, F::TY, if e > 0 { "e>0" } else { "e<0" }),
                        format!("multiplying the data by 2^{} does not scale the {} interval {}", e, pname, if matches!(c.prod, Prod::Geometric | Prod::Harmonic) { "up to rounding" } else { "exactly" }),
                        case(),
                        json!({"exponent": e, "kind": kind.name(), "level": level, "CI(D)": o.json(), "CI(2^e D)": s.describe(), "expected": [wl, wh]}),
                    );
                }
            }
        }
    } else {
        l.count("no admissible exponent range");
    }
    if positive {
        // reordering for geometric/harmonic is covered through the arithmetic state; negation and
        // shifts leave the positive domain
        return;
    }
    // ---- (2) negation: exact mirror, upper <-> lower
    {
        let na: Vec<F> = a.iter().map(|x| -*x).collect();
        let nb: Vec<F> = b.iter().map(|x| -*x).collect();
        for (ci, (kind, level)) in c.confs.iter().enumerate() {
            let o = match &base[ci] {
                Out::Ok(o) if !o.has_nan() => *o,
                _ => continue,
            };
            let s = ci_of::<F>(c.prod, kind.flipped(), *level, &na, &nb);
            l.eval();
            l.count("negation judged");
            let ok = matches!(&s, Out::Ok(s) if s.kind == o.kind.flipped() && s.lo == -o.hi && s.hi == -o.lo);
            if !ok {
                l.violation(format!("{}|{}|negation-not-mirror|{}", pname, F::TY, kind.name()), "negating the data does not mirror the interval exactly (with upper <-> lower)".to_string(), case(), json!({"kind": kind.name(), "level": level, "CI(D)": o.json(), "CI(-D) at flipped kind": s.describe()}));
            }
        }
    }
    // budgets for the shift / permutation relations need exact statistics
    // reference bounds and rounding budget from exact statistics of a data set
    let ref_of = |a64: &[f64], b64: &[f64], kind: Kind, level: f64| -> Option<(f64, f64, f64)> {
        match c.prod {
            Prod::Arithmetic => {
                let st = stats_f64(a64);
                if !in_domain(&st, F::U) {
                    return None;
                }
                let e = expected_mean_ci(&st, F::U, kind, level);
                let t = e.cands.iter().map(|x| x.2).fold(0.0, f64::max);
                Some((e.cands[0].0, e.cands[0].1, t))
            }
            Prod::Paired => {
                let d: Vec<f64> = a64.iter().zip(b64.iter()).map(|(x, y)| (F::of(*x) - F::of(*y)).f()).collect();
                let st = stats_f64(&d);
                if !in_domain(&st, F::U) {
                    return None;
                }
                let e = expected_mean_ci(&st, F::U, kind, level);
                let t = e.cands.iter().map(|x| x.2).fold(0.0, f64::max);
                Some((e.cands[0].0, e.cands[0].1, t))
            }
            Prod::Unpaired => {
                let (sa, sb) = (stats_f64(a64), stats_f64(b64));
                if !in_domain(&sa, F::U) || !in_domain(&sb, F::U) {
                    return None;
                }
                let rr = unpaired_ref(&sa, &sb, F::U);
                let e = unpaired_expected(&rr, F::U, kind, level);
                let t = e.iter().map(|x| x.2).fold(0.0, f64::max);
                Some((e[0].0, e[0].1, t))
            }
            _ => None,
        }
    };
    let tol_of = |a64: &[f64], b64: &[f64], kind: Kind, level: f64| -> Option<f64> { ref_of(a64, b64, kind, level).map(|x| x.2) };
    // ---- (3) shift by a constant (values chosen so that x + t is exact in F where possible)
    {
        let scale_mag = all64.iter().fold(0.0f64, |m, x| m.max(x.abs())).max(1e-300);
        for si in 0..4 {
            let mut t = F::of(scale_mag * *r.pick(&[1.0, -1.0, 0.25, -8.0, 64.0, 1e-3]) * (1.0 + (r.below(8) as f64) / 8.0));
            // the fourth shift moves the point estimate to exactly zero where that is exactly possible
            // (first sample only for the comparisons): a mean of 0 is as good a mean as any other
            let to_zero = si == 3;
            if to_zero {
                if matches!(c.prod, Prod::Geometric | Prod::Harmonic) {
                    continue;
                }
                let mean = |v: &[f64]| if v.is_empty() { 0.0 } else { v.iter().sum::<f64>() / v.len() as f64 };
                let est = mean(&a64) - mean(&b64);
                t = F::of(-est);
                let exact = a.iter().all(|x| ((*x + t) - t) == *x) && t.f() == -est;
                let sa_: Vec<f64> = a.iter().map(|x| (*x + t).f()).collect();
                if !exact || est == 0.0 || mean(&sa_) - mean(&b64) != 0.0 {
                    continue;
                }
                l.count("shift to an exactly zero point estimate");
            }
            let sa: Vec<F> = a.iter().map(|x| *x + t).collect();
            // paired differences and unpaired differences of means are invariant when both shift
            let sb: Vec<F> = if to_zero { b.clone() } else { b.iter().map(|x| *x + t).collect() };
            let sa64: Vec<f64> = sa.iter().map(|x| x.f()).collect();
            let sb64: Vec<f64> = sb.iter().map(|x| x.f()).collect();
            for (ci, (kind, level)) in c.confs.iter().enumerate() {
                let o = match &base[ci] {
                    Out::Ok(o) if !o.has_nan() => *o,
                    _ => continue,
                };
                let (r0, r1) = match (ref_of(&a64, &b64, *kind, *level), ref_of(&sa64, &sb64, *kind, *level)) {
                    (Some(x), Some(y)) => (x, y),
                    _ => {
                        l.count("shift outside the conditioning domain (skipped)");
                        continue;
                    }
                };
                let s = ci_of::<F>(c.prod, *kind, *level, &sa, &sb);
                l.eval();
                l.count("shift judged");
                let dt = if c.prod == Prod::Arithmetic || to_zero { t.f() } else { 0.0 };
                // x + t is rounded in F: the shifted data set is a (slightly) different data set.
                // What any implementation owes is its own budget on each data set plus the exact
                // displacement of the reference bounds caused by that rounding of the data.
                let disp = {
                    let dl = if o.kind == Kind::Lower { 0.0 } else { (r1.0 - r0.0 - dt).abs() };
                    let dh = if o.kind == Kind::Upper { 0.0 } else { (r1.1 - r0.1 - dt).abs() };
                    dl.max(dh)
                };
                let tol = r0.2 + r1.2 + disp;
                let ok = match &s {
                    Out::Ok(s) => s.kind == o.kind && (o.kind == Kind::Lower || (s.lo - (o.lo + dt)).abs() <= tol) && (o.kind == Kind::Upper || (s.hi - (o.hi + dt)).abs() <= tol),
                    _ => false,
                };
                if let Out::Ok(s) = &s {
                    let e = if o.kind == Kind::Lower { 0.0 } else { (s.lo - (o.lo + dt)).abs() }.max(if o.kind == Kind::Upper { 0.0 } else { (s.hi - (o.hi + dt)).abs() });
                    l.max("shift_err_minus_data_rounding_over_budget", (e - disp).max(0.0) / (r0.2 + r1.2));
                }
                if !ok {
                    l.violation(format!("{}|{}|shift|{}", pname, F::TY, kind.name()), "adding a constant to the data does not shift the bounds by that constant (differences: leave them unchanged) within the rounding budget".to_string(), case(), json!({"shift": t.f(), "kind": kind.name(), "level": level, "CI(D)": o.json(), "CI(D+t)": s.describe(), "tolerance": tol}));
                }
            }
        }
    }
    // ---- (4) reordering
    {
        let n = a.len();
        let perms: Vec<Vec<usize>> = if n <= 6 && c.prod != Prod::Unpaired {
            permutations(n)
        } else {
            (0..if n <= 64 { 12 } else { 4 })
                .map(|_| {
                    let mut p: Vec<usize> = (0..n).collect();
                    r.shuffle(&mut p);
                    p
                })
                .collect()
        };
        for (pi, p) in perms.iter().enumerate() {
            let pa: Vec<F> = p.iter().map(|i| a[*i]).collect();
            // paired: the pairs move together; unpaired: b is shuffled independently
            let pb: Vec<F> = if c.prod == Prod::Paired {
                p.iter().map(|i| b[*i]).collect()
            } else {
                let mut q = b.clone();
                r.shuffle(&mut q);
                q
            };
            for (ci, (kind, level)) in c.confs.iter().enumerate() {
                let o = match &base[ci] {
                    Out::Ok(o) if !o.has_nan() => *o,
                    _ => continue,
                };
                let t0 = match tol_of(&a64, &b64, *kind, *level) {
                    Some(x) => x,
                    None => {
                        l.count("reordering outside the conditioning domain (skipped)");
                        continue;
                    }
                };
                // the second permutation of every case goes through a state folded from per-observation states
                let folded = pi == 1 && matches!(c.prod, Prod::Arithmetic | Prod::Unpaired);
                let s = if folded { ci_folded::<F>(c.prod, *kind, *level, &pa, &pb) } else { ci_of::<F>(c.prod, *kind, *level, &pa, &pb) };
                l.eval();
                l.count("reordering judged");
                if folded {
                    l.count("reordering judged on a state folded from per-observation states");
                }
                let tol = 2.0 * t0;
                let ok = match &s {
                    Out::Ok(s) => s.kind == o.kind && (o.kind == Kind::Lower || (s.lo - o.lo).abs() <= tol) && (o.kind == Kind::Upper || (s.hi - o.hi).abs() <= tol),
                    _ => false,
                };
                if let Out::Ok(s) = &s {
                    let e = if o.kind == Kind::Lower { 0.0 } else { (s.lo - o.lo).abs() }.max(if o.kind == Kind::Upper { 0.0 } else { (s.hi - o.hi).abs() });
                    l.max("reorder_err_over_budget", e / tol);
                }
                if !ok {
                    l.violation(format!("{}|{}|reordering|{}", pname, F::TY, kind.name()), "reordering the observations changes the bounds by more than the rounding budget".to_string(), case(), json!({"kind": kind.name(), "level": level, "CI(D)": o.json(), "CI(permuted D)": s.describe(), "tolerance": tol, "n": n}));
                }
            }
        }
    }
    let cls = format!("{}:{}", F::TY, pname);
    if l.wants_sample(&cls) {
        l.sample(&cls, || json!({"case": c, "first_values_a": &a64[..a64.len().min(4)], "base": base.iter().take(2).map(|o| o.describe()).collect::<Vec<_>>(), "exponent_range": exp_range::<F>(&all64, n_tot)}));
    }
}

/// Equivariance must not depend on what was computed in between: the original and the transformed
/// unpaired comparison are separated by mean intervals of other samples whose degrees of freedom sweep
/// the integers around the (real-valued) effective degrees of freedom of the comparison, at the same
/// confidence. An implementation that remembers a critical value per (confidence, integer part of dof)
/// then serves the transformed data a value the original did not get.
fn hidden_state_lane(seed: u64, i: u64, l: &mut Local) {
    let mut r = Rng::from(&[seed, 0xc16d, i]);
    let (na, nb) = (r.range(3, 7) as usize, r.range(4, 9) as usize);
    let a: Vec<f64> = (0..na).map(|_| r.range(-40, 40) as f64 * 0.25).collect();
    let b: Vec<f64> = (0..nb).map(|_| r.range(-400, 400) as f64 * 0.125 * if i % 3 == 0 { 0.25 } else { 1.0 }).collect();
    if a.iter().all(|x| *x == a[0]) || b.iter().all(|x| *x == b[0]) {
        return;
    }
    let e = *r.pick(&[-20, -3, 5, 17]);
    let (a2, b2) = (scale::<f64>(&a, e), scale::<f64>(&b, e));
    let filler = |n: usize| -> Vec<f64> { (0..n).map(|j| (j * j % 7) as f64 + j as f64 * 0.5).collect() };
    let kind = KINDS[(i % 3) as usize];
    let level = *r.pick(&[0.95, 0.9, 0.75, 0.99]);
    let f = 2f64.powi(e);
    for m in (na.min(nb) - 1)..=(na + nb - 2) {
        // m = candidate integer part of the effective dof
        let _ = ci_of::<f64>(Prod::Arithmetic, kind, level, &filler(m + 3), &vec![]);
        let o = ci_of::<f64>(Prod::Unpaired, kind, level, &a, &b);
        let _ = ci_of::<f64>(Prod::Arithmetic, kind, level, &filler(m + 3), &vec![]);
        let _ = ci_of::<f64>(Prod::Arithmetic, kind, level, &filler(m + 1), &vec![]);
        let t = ci_of::<f64>(Prod::Unpaired, kind, level, &a2, &b2);
        l.eval();
        l.count("scaling judged across interleaved queries");
        match (&o, &t) {
            (Out::Ok(o), Out::Ok(t)) => {
                let same = |x: f64, y: f64| (x * f).to_bits() == y.to_bits() || (x.is_infinite() && x == y);
                if !(same(o.lo, t.lo) && same(o.hi, t.hi)) {
                    l.violation(
                        "Unpaired|scaling-depends-on-interleaved-queries".to_string(),
                        "scaling the data by a power of two does not scale the unpaired interval exactly once other intervals are computed in between".to_string(),
                        json!({"what": "hidden", "i": i}),
                        json!({"a": a, "b": b, "exponent": e, "kind": kind.name(), "level": level, "interleaved_arithmetic_sample_sizes": [m + 3, m + 1], "original": o.json(), "scaled": t.json()}),
                    );
                    return;
                }
            }
            (x, y) => {
                if x.class() != y.class() {
                    l.violation("Unpaired|scaling-outcome-depends-on-interleaved-queries".to_string(), "the outcome class changes under scaling".to_string(), json!({"what": "hidden", "i": i}), json!({"original": x.describe(), "scaled": y.describe()}));
                }
            }
        }
    }
    l.nontrivial(mix(&[0xc16d, i, seed]));
}

fn make_case(seed: u64, i: u64, levels: &[f64]) -> Case {
    let mut r = Rng::from(&[seed, 0xc16, i]);
    let f32 = i % 2 == 1;
    let prod = [Prod::Arithmetic, Prod::Paired, Prod::Unpaired, Prod::Geometric, Prod::Harmonic][(i / 2 % 5) as usize];
    let positive = matches!(prod, Prod::Geometric | Prod::Harmonic);
    let fam = |r: &mut Rng| -> Family {
        if positive {
            *r.pick(&POSITIVE_FAMILIES)
        } else {
            *r.pick(&REAL_FAMILIES)
        }
    };
    let n = sci_common::gen::pick_len(&mut r, i / 10, &[3000]);
    let nb = if prod == Prod::Unpaired { sci_common::gen::pick_len(&mut r, i / 10 + 3, &[500]) } else { n };
    let a = Spec { family: fam(&mut r), n, seed: r.next_u64(), f32, positive };
    let b = Spec { family: fam(&mut r), n: nb, seed: r.next_u64(), f32, positive };
    let mut confs = vec![];
    for kind in KINDS {
        confs.push((kind, *r.pick(&[0.01, 0.25, 0.3])));
        confs.push((kind, *r.pick(levels)));
        confs.push((kind, *r.pick(&[0.9, 0.95, 0.99, 0.9999])));
    }
    let balanced = prod == Prod::Unpaired && i % 30 < 10 && matches!(a.family, Family::SmallInts | Family::Dyadic | Family::Uniform01 | Family::Normalish | Family::Progression);
    Case { prod, a, b, confs, tseed: r.next_u64(), balanced }
}

pub fn run(run: &Arc<Run>) {
    let seed = run.cfg.seed;
    let levels = level_grid(seed, 8);
    run.set_rule(
        "seeded samples (10 real-valued families, 5 positive ones for geometric/harmonic; f32/f64; n = 2..9, 10..200, 10^3, 3*10^3) for Arithmetic, Paired, Unpaired, Geometric, Harmonic x 9 confidences; transforms per sample: ~10 exponents over the whole range in which x, x^2, their sums, cancelled variances and compensation terms stay normal \
         (bit-exact scaling demanded for Arithmetic/Paired/Unpaired, 8 ulp for Harmonic, a |ln|-proportional relative budget for Geometric), negation (exact mirror with upper <-> lower), 3 shifts (budget of both samples), all permutations for n <= 6 and random permutations otherwise (twice the budget); small unpaired comparisons whose original and scaled evaluations are separated by mean intervals with every integer dof around the effective one. \
         non-trivial = samples with a usable base interval; distinct = (data, producer, transform seed) fingerprints.",
    );
    run.assume("exact scaling is demanded only inside the exponent range where it is an IEEE-754 consequence for any implementation based on sums of x and x^2 (head-room 2^40 (f32) / 2^110 (f64) above the subnormal threshold of x^2)");
    if let Some(case) = run.replay_case.as_ref().filter(|c| c["what"] == "hidden") {
        let mut l = run.local();
        hidden_state_lane(seed, case["i"].as_u64().unwrap(), &mut l);
        run.absorb(l);
        return;
    }
    if let Some(case) = &run.replay_case {
        let c: Case = serde_json::from_value(case.clone()).expect("case");
        let mut l = run.local();
        if c.a.f32 {
            judge::<f32>(&c, &mut l)
        } else {
            judge::<f64>(&c, &mut l)
        }
        run.absorb(l);
        return;
    }
    run.par(run.cfg.by(400u64, 20_000), |i, l| hidden_state_lane(seed, i, l));
    let n = run.cfg.by(12_000u64, 400_000);
    run.par(n, |i, l| {
        let c = make_case(seed, i, &levels);
        if c.a.f32 {
            judge::<f32>(&c, l)
        } else {
            judge::<f64>(&c, l)
        }
    });
    let mut req: Vec<String> = vec!["scaling judged".into(), "negation judged".into(), "shift judged".into(), "shift to an exactly zero point estimate".into(), "reordering judged".into(), "scaling judged across interleaved queries".into(), "balanced unpaired design (integer effective dof)".into()];
    for ty in ["f32", "f64"] {
        for p in ["Arithmetic", "Paired", "Unpaired", "Geometric", "Harmonic"] {
            req.push(format!("{}:{}", ty, p));
        }
    }
    let r: Vec<&str> = req.iter().map(|s| s.as_str()).collect();
    run.require(&r);
    let _: Option<Value> = None;
}
