//! Order independence of queries ("hidden state" monitor), shared by C01, C06, C09 and C10.
//!
//! A confidence interval is a pure function of the state and the confidence. An implementation that
//! memoises critical values under an incomplete key (level without kind, truncated degrees of
//! freedom, ...) returns results that depend on which query ran just before. The monitor evaluates
//! a set of queries chosen to collide under such keys in several different orders, on the same
//! thread and on fresh threads, and demands bit-identical answers for each query.
use crate::api::{call, conf, Obs, Out};
use sci_common::gen::{Kind, KINDS};
use sci_common::rt::{mix, Local, Rng};
use serde_json::{json, Value};
use stats_ci::comparison::Unpaired;
use stats_ci::mean::Arithmetic;
use stats_ci::{proportion, quantile, StatisticsOps};

#[derive(Clone)]
enum Q {
    Arith(Arithmetic<f64>, Kind, f64),
    Unp(Unpaired<f64>, Kind, f64),
    Prop(usize, usize, Kind, f64),
    Wald(usize, usize, Kind, f64),
    Rank(usize, f64, Kind, f64),
}

impl Q {
    fn run(&self) -> Out<Obs> {
        match self {
            Q::Arith(s, k, l) => call(|| s.ci_mean(conf(*k, *l))).map(|i| Obs::of64(&i)),
            Q::Unp(s, k, l) => call(|| s.ci_mean(conf(*k, *l))).map(|i| Obs::of64(&i)),
            Q::Prop(n, s, k, l) => call(|| proportion::ci(conf(*k, *l), *n, *s)).map(|i| Obs::of64(&i)),
            Q::Wald(n, s, k, l) => call(|| proportion::ci_z_normal(conf(*k, *l), *n, *s)).map(|i| Obs::of64(&i)),
            Q::Rank(n, q, k, l) => call(|| quantile::ci_indices(conf(*k, *l), *n, *q)).map(|i| match i {
                stats_ci::Interval::TwoSided(a, b) => Obs { kind: Kind::Two, lo: a as f64, hi: b as f64 },
                stats_ci::Interval::UpperOneSided(a) => Obs { kind: Kind::Upper, lo: a as f64, hi: f64::INFINITY },
                stats_ci::Interval::LowerOneSided(b) => Obs { kind: Kind::Lower, lo: f64::NEG_INFINITY, hi: b as f64 },
            }),
        }
    }
    fn describe(&self) -> String {
        match self {
            Q::Arith(s, k, l) => format!("Arithmetic(n={}).ci_mean({} {})", s.sample_count(), k.name(), l),
            Q::Unp(s, k, l) => format!("Unpaired(na={}, nb={}).ci_mean({} {})", s.stats_a().sample_count(), s.stats_b().sample_count(), k.name(), l),
            Q::Prop(n, s, k, l) => format!("proportion::ci({} {}, {}, {})", k.name(), l, n, s),
            Q::Wald(n, s, k, l) => format!("proportion::ci_z_normal({} {}, {}, {})", k.name(), l, n, s),
            Q::Rank(n, q, k, l) => format!("quantile::ci_indices({} {}, {}, {})", k.name(), l, n, q),
        }
    }
    fn family(&self) -> &'static str {
        match self {
            Q::Arith(..) => "Arithmetic",
            Q::Unp(..) => "Unpaired",
            Q::Prop(..) => "proportion::ci",
            Q::Wald(..) => "proportion::ci_z_normal",
            Q::Rank(..) => "quantile::ci_indices",
        }
    }
}

fn key(o: &Out<Obs>) -> String {
    match o {
        Out::Ok(x) => format!("{:?}", x.bits()),
        Out::Err(f, _) => format!("Err({})", f.name()),
        Out::Panic(p) => format!("panic@{}", p.location),
    }
}

fn arith(r: &mut Rng, n: usize) -> Arithmetic<f64> {
    let v: Vec<f64> = (0..n).map(|_| r.normalish() * 3.0 + 10.0).collect();
    Arithmetic::<f64>::from_iter(&v).unwrap()
}

/// one group of mutually colliding queries, evaluated in several orders
pub fn order_independence(tag: &str, seed: u64, i: u64, l: &mut Local) {
    let mut r = Rng::from(&[seed, 0x9071, i]);
    let level = *r.pick(&[0.9, 0.95, 0.8, 0.6, 0.3, 0.99]);
    let level2 = *r.pick(&[0.75, 0.5, 0.999, 0.25]);
    let mut qs: Vec<Q> = vec![];
    // (a) same state and level, all kinds; a second level in between
    let n = r.range(3, 40) as usize;
    let st = arith(&mut r, n);
    for k in KINDS {
        qs.push(Q::Arith(st, k, level));
    }
    qs.push(Q::Arith(st, Kind::Two, level2));
    // (b) real-valued effective dof sharing its integer part with other states' dof
    let (na, nb) = (r.range(3, 9) as usize, r.range(3, 9) as usize);
    let a: Vec<f64> = (0..na).map(|_| r.normalish()).collect();
    let b: Vec<f64> = (0..nb).map(|_| r.normalish() * r.uniform(1.5, 6.0)).collect();
    let u1 = Unpaired::<f64>::from_iter(&a, &b).unwrap();
    let b2: Vec<f64> = b.iter().map(|x| x * 1.37 + 0.2).collect();
    let u2 = Unpaired::<f64>::from_iter(&a, &b2).unwrap();
    for k in [Kind::Two, Kind::Upper] {
        qs.push(Q::Unp(u1.clone(), k, level));
        qs.push(Q::Unp(u2.clone(), k, level));
    }
    // arithmetic states whose integer dof equals the integer part of a plausible fractional dof
    for m in 3..=(na + nb) {
        if r.chance(0.6) {
            qs.push(Q::Arith(arith(&mut r, m + 1), Kind::Two, level));
        }
    }
    // (c) proportions and ranks: same level across kinds, same counts
    let pn = r.range(30, 400) as usize;
    let pk = r.range(12, pn as i64 - 12) as usize;
    for k in KINDS {
        qs.push(Q::Prop(pn, pk, k, level));
        qs.push(Q::Wald(pn, pk, k, level));
        qs.push(Q::Rank(pn, 0.5, k, level));
    }
    qs.push(Q::Prop(pn, pk, Kind::Two, level2));
    // (d) levels that differ by less than any sensible tolerance (a memo with an approximate key):
    // huge counts make a 1e-7 change of the level move a rank / change the bits of a bound
    for dl in [1e-7, -3e-7] {
        let near = level + dl;
        qs.push(Q::Rank(1_000_000_000_000, 0.5, Kind::Two, near));
        qs.push(Q::Prop(1_000_000_000_000, 400_000_000_000, Kind::Upper, near));
        qs.push(Q::Arith(st, Kind::Two, near));
    }
    qs.push(Q::Rank(1_000_000_000_000, 0.5, Kind::Two, level));
    qs.push(Q::Prop(1_000_000_000_000, 400_000_000_000, Kind::Upper, level));
    let m = qs.len();
    // reference: every query on a fresh thread of its own (no thread-local history)
    let fresh: Vec<String> = qs
        .iter()
        .map(|q| {
            let q = q.clone();
            std::thread::spawn(move || key(&q.run())).join().unwrap_or_else(|_| "thread-panic".into())
        })
        .collect();
    // several orders on this thread
    let mut orders: Vec<Vec<usize>> = vec![(0..m).collect(), (0..m).rev().collect()];
    for _ in 0..3 {
        let mut p: Vec<usize> = (0..m).collect();
        r.shuffle(&mut p);
        orders.push(p);
    }
    l.nontrivial(mix(&[seed, i, 0x9071]));
    l.count("order-independence groups judged");
    for (oi, ord) in orders.iter().enumerate() {
        for (pos, &qi) in ord.iter().enumerate() {
            let got = key(&qs[qi].run());
            l.eval();
            if got != fresh[qi] {
                let prev = if pos > 0 { qs[ord[pos - 1]].describe() } else { "(first)".into() };
                l.violation(
                    format!("{}|query-result-depends-on-history|{}", tag, qs[qi].family()),
                    "the same query on the same state answers differently depending on which queries ran before it (hidden state)".to_string(),
                    json!({"what": "order", "i": i}),
                    json!({"query": qs[qi].describe(), "previous_query": prev, "order": oi, "answer_in_this_order": got, "answer_on_a_fresh_thread": fresh[qi]}),
                );
            }
        }
    }
    if l.wants_sample("order-independence") {
        l.sample("order-independence", || json!({"queries": qs.iter().take(8).map(|q| q.describe()).collect::<Vec<_>>(), "orders_tried": orders.len(), "fresh_thread_answers": fresh.iter().take(3).collect::<Vec<_>>()}));
    }
    let _: Option<Value> = None;
}
