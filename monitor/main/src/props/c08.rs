//! C08 — compensated summation error is O(u * sum|x|), independent of the number of terms.
use crate::props::fl::{debug_has_nonzero_compensation, Fl};
use sci_common::exact::{ExactAcc, Rat};
use sci_common::rt::{hash_str, mix, Local, Rng, Run};
use serde::{Deserialize, Serialize};
use serde_json::{json, Value};
use stats_ci::mean::Arithmetic;
use stats_ci::utils::KahanSum;
use stats_ci::StatisticsOps;
use std::sync::Arc;

/// the constant of the bound |value - S| <= K_S * u * sum|x|
pub const K_S: f64 = 8.0;

#[derive(Clone, Copy, Debug, Serialize, Deserialize, PartialEq)]
pub enum SumFamily {
    Constant,
    UniformSameSign,
    LogUniform,
    MixedSign,
    LargeSmallLarge,
    AlternatingCancel,
    TinyOnLargeBase,
    Dyadic,
    /// normal values so small that one ulp of the running sum is subnormal
    TinyScale,
    /// one value so large that its ulp exceeds the increments, then equal dyadic increments: each
    /// increment is absorbed by the compensation alone, which it sometimes cancels exactly (y = x - c = 0)
    DyadicOnHugeBase,
}
const FAMILIES: [SumFamily; 10] = [
    SumFamily::Constant,
    SumFamily::UniformSameSign,
    SumFamily::LogUniform,
    SumFamily::MixedSign,
    SumFamily::LargeSmallLarge,
    SumFamily::AlternatingCancel,
    SumFamily::TinyOnLargeBase,
    SumFamily::Dyadic,
    SumFamily::TinyScale,
    SumFamily::DyadicOnHugeBase,
];

#[derive(Clone, Copy, Debug, Serialize, Deserialize, PartialEq)]
pub enum Hist {
    OneByOne,
    ByValue,
    FromRegister,
    LeftFold,
    /// acc = part + acc: the receiver of every merge is the smaller register
    RightFold,
    Balanced,
    RandomTree,
    RandomTreeInterleaved,
    /// one accumulator fed alternately by value and by register: acc += x; acc += part; ...
    AlternateScalarMerge,
}
const HISTS: [Hist; 9] = [Hist::OneByOne, Hist::ByValue, Hist::FromRegister, Hist::LeftFold, Hist::RightFold, Hist::Balanced, Hist::RandomTree, Hist::RandomTreeInterleaved, Hist::AlternateScalarMerge];

#[derive(Clone, Debug, Serialize, Deserialize)]
pub struct Case {
    pub f32: bool,
    pub family: SumFamily,
    pub n: usize,
    pub seed: u64,
    pub hist: Hist,
    pub chunk: usize, // 0 = random sizes
}

fn gen<F: Fl>(c: &Case) -> Vec<F> {
    let mut r = Rng::from(&[c.seed, c.n as u64, c.family as u64, c.f32 as u64, 0x5c08]);
    let n = c.n;
    let mut v: Vec<f64> = Vec::with_capacity(n);
    match c.family {
        SumFamily::Constant => {
            let k = *r.pick(&[1.1, 0.1, 1.0 / 3.0, 0.7, 1e-3, 12345.678]);
            v.resize(n, k);
        }
        SumFamily::UniformSameSign => {
            let s = if r.bool() { 1.0 } else { -1.0 };
            let scale = *r.pick(&[1.0, 1e-4, 1e6]);
            for _ in 0..n {
                v.push(s * scale * (0.001 + r.f64()));
            }
        }
        SumFamily::LogUniform => {
            let span = if c.f32 { 30.0 } else { 40.0 };
            for _ in 0..n {
                let e = r.uniform(-span, span);
                v.push((1.0 + r.f64()) * e.exp2() * if r.bool() { 1.0 } else { -1.0 });
            }
        }
        SumFamily::MixedSign => {
            for _ in 0..n {
                v.push(r.normalish() * 100.0);
            }
        }
        SumFamily::LargeSmallLarge => {
            let big = (r.range(10, if c.f32 { 20 } else { 45 }) as f64).exp2() * (1.0 + r.f64());
            for i in 0..n {
                if i == 0 {
                    v.push(big);
                } else if i + 1 == n && n > 2 {
                    v.push(-big);
                } else {
                    v.push(r.uniform(0.01, 1.0));
                }
            }
        }
        SumFamily::AlternatingCancel => {
            let base = *r.pick(&[1.0, 1e5, 3.7e-3]);
            for i in 0..n {
                let x = base * (1.0 + 1e-3 * r.f64());
                v.push(if i % 2 == 0 { x } else { -x });
            }
        }
        SumFamily::TinyOnLargeBase => {
            let base = (r.range(8, if c.f32 { 18 } else { 40 }) as f64).exp2();
            v.push(base);
            for _ in 1..n {
                v.push(r.uniform(0.1, 1.0) * 1e-3);
            }
        }
        SumFamily::Dyadic => {
            for _ in 0..n {
                v.push(r.range(-1024, 1024) as f64 / 64.0);
            }
        }
        SumFamily::DyadicOnHugeBase => {
            let p = if c.f32 { 24 } else { 53 };
            let sign = if r.bool() { 1.0 } else { -1.0 };
            let base = ((p + r.range(1, 6)) as f64).exp2() * sign;
            let inc = *r.pick(&[1.0, 0.25, 2.0, 0.5]) * if r.chance(0.8) { sign } else { -sign };
            v.push(base);
            for _ in 1..n {
                v.push(inc);
            }
        }
        SumFamily::TinyScale => {
            // values stay normal (>= 2^-120 resp. 2^-1010) while ulp(sum) falls below the normal range
            let k = if c.f32 { 2f64.powi(-120) } else { 2f64.powi(-1010) };
            let base = *r.pick(&[0.1, 0.7, 1.1]);
            for _ in 0..n {
                v.push(k * base * if r.chance(0.5) { 1.0 } else { 1.0 + r.f64() });
            }
        }
    }
    v.iter().map(|x| F::of(*x)).collect()
}

struct MergeStats {
    merges: u64,
    merges_nonzero_comp: u64,
    unmeasured: bool,
}

fn note_reg<F: Fl>(k: &KahanSum<F>, ms: &mut MergeStats) {
    ms.merges += 1;
    // sampled (formatting is slow)
    if ms.merges % 16 == 1 {
        match debug_has_nonzero_compensation(&format!("{:?}", k)) {
            Some(true) => ms.merges_nonzero_comp += 1,
            Some(false) => {}
            None => ms.unmeasured = true,
        }
    }
}

fn run_history<F: Fl>(c: &Case, data: &[F], ms: &mut MergeStats) -> F {
    let mut r = Rng::from(&[c.seed, 0x415, c.n as u64, c.chunk as u64]);
    match c.hist {
        Hist::OneByOne => {
            let mut s = KahanSum::<F>::default();
            for &x in data {
                s += x;
            }
            s.value()
        }
        Hist::ByValue => {
            let mut s = KahanSum::<F>::new(F::zero());
            for &x in data {
                s = s + x;
            }
            s.value()
        }
        Hist::FromRegister => {
            let mut s = KahanSum::<F>::default();
            for &x in data {
                let reg = KahanSum::from(x);
                s += reg;
            }
            s.value()
        }
        Hist::AlternateScalarMerge => {
            let mut acc = KahanSum::<F>::default();
            let sz = if c.chunk == 0 { 4 } else { c.chunk + 1 };
            for ch in data.chunks(sz) {
                acc += ch[0];
                if ch.len() > 1 {
                    let mut part = KahanSum::<F>::default();
                    for &x in &ch[1..] {
                        part += x;
                    }
                    note_reg(&part, ms);
                    acc += part;
                }
            }
            acc.value()
        }
        _ => {
            // registers over chunks
            let mut regs: Vec<KahanSum<F>> = vec![];
            let mut withheld: Vec<F> = vec![];
            let mut i = 0;
            while i < data.len() {
                let sz = if c.chunk == 0 { 1 + r.below(64) as usize } else { c.chunk };
                let end = (i + sz).min(data.len());
                let mut k = KahanSum::<F>::default();
                for &x in &data[i..end] {
                    if c.hist == Hist::RandomTreeInterleaved && r.chance(0.1) {
                        withheld.push(x);
                    } else {
                        k += x;
                    }
                }
                regs.push(k);
                i = end;
            }
            if regs.is_empty() {
                regs.push(KahanSum::default());
            }
            match c.hist {
                Hist::LeftFold => {
                    let mut acc = regs[0];
                    for k in &regs[1..] {
                        note_reg(k, ms);
                        acc += *k;
                    }
                    acc.value()
                }
                Hist::RightFold => {
                    let mut acc = regs[0];
                    for k in &regs[1..] {
                        note_reg(&acc, ms);
                        let mut part = *k;
                        part += acc;
                        acc = part;
                    }
                    acc.value()
                }
                Hist::Balanced => {
                    while regs.len() > 1 {
                        let mut next = Vec::with_capacity(regs.len() / 2 + 1);
                        let mut j = 0;
                        while j + 1 < regs.len() {
                            note_reg(&regs[j + 1], ms);
                            next.push(regs[j] + regs[j + 1]);
                            j += 2;
                        }
                        if j < regs.len() {
                            next.push(regs[j]);
                        }
                        regs = next;
                    }
                    regs[0].value()
                }
                _ => {
                    while regs.len() > 1 {
                        let a = r.below(regs.len() as u64) as usize;
                        let ka = regs.swap_remove(a);
                        let b = r.below(regs.len() as u64) as usize;
                        let kb = regs.swap_remove(b);
                        note_reg(&kb, ms);
                        let mut m = ka;
                        m += kb;
                        if let Some(x) = withheld.pop() {
                            if r.bool() {
                                m += x;
                            } else {
                                withheld.push(x);
                            }
                        }
                        regs.push(m);
                    }
                    let mut m = regs[0];
                    for x in withheld {
                        m += x;
                    }
                    m.value()
                }
            }
        }
    }
}

fn judge<F: Fl>(c: &Case, l: &mut Local) {
    let data: Vec<F> = gen::<F>(c);
    let mut acc = ExactAcc::new();
    for x in data.iter() {
        acc.push(x.f());
    }
    let s = acc.sum();
    let a = acc.abs_sum().to_f64();
    let mut ms = MergeStats { merges: 0, merges_nonzero_comp: 0, unmeasured: false };
    let got = run_history::<F>(c, &data, &mut ms);
    l.eval();
    l.evals(data.len() as u64 / 1000);
    let err = Rat::from_dy(s.clone()).diff_from(got.f()).abs();
    let ua = F::U * a;
    let ratio = if ua > 0.0 { err / ua } else if err == 0.0 { 0.0 } else { f64::INFINITY };
    // sensitivity witness: naive summation on the same data
    let mut naive = F::zero();
    for &x in data.iter() {
        naive = naive + x;
    }
    let nerr = Rat::from_dy(s.clone()).diff_from(naive.f()).abs();
    let nratio = if ua > 0.0 { nerr / ua } else { 0.0 };
    l.max_with("kahan_error_over_u_sumabs", ratio, || serde_json::to_value(c).unwrap());
    l.max("naive_error_over_u_sumabs(sensitivity witness)", nratio);
    let decade = match c.n {
        0..=99 => "n<1e2",
        100..=9_999 => "n<1e4",
        10_000..=999_999 => "n<1e6",
        _ => "n>=1e6",
    };
    l.count_s(format!("{}:{:?}:{}", F::TY, c.family, decade));
    l.count_s(format!("history:{:?}", c.hist));
    match decade {
        "n<1e2" => l.max("ratio@n<1e2", ratio),
        "n<1e4" => l.max("ratio@n<1e4", ratio),
        "n<1e6" => l.max("ratio@n<1e6", ratio),
        _ => l.max("ratio@n>=1e6", ratio),
    }
    l.count_n("merged registers", ms.merges);
    l.count_n("merged registers sampled with non-zero compensation (x16)", ms.merges_nonzero_comp * 16);
    if ms.unmeasured {
        l.count("compensation coverage unmeasured (Debug format changed)");
    }
    l.nontrivial(mix(&[hash_str(F::TY), c.family as u64, c.n as u64, c.seed, c.hist as u64, c.chunk as u64]));
    if !(ratio <= K_S) {
        l.violation(
            format!("KahanSum|{}|{:?}|error>K_s*u*sum|x|", F::TY, c.hist),
            format!("compensated sum ({:?} history, {}) is off by more than {} u sum|x|", c.hist, F::TY, K_S),
            serde_json::to_value(c).unwrap(),
            json!({"value": got.f(), "exact_sum": s.to_f64(), "abs_error": err, "u*sum|x|": ua, "ratio": ratio, "naive_ratio": nratio, "n": c.n}),
        );
    }
    if l.wants_sample(&format!("{:?}", c.hist)) {
        l.sample(&format!("{:?}", c.hist), || json!({"case": c, "value": got.f(), "exact_sum": s.to_f64(), "error_over_u_sumabs": ratio, "naive_error_over_u_sumabs": nratio}));
    }
    // statistics built on the sums inherit the bound: one by one, and partial Arithmetic states merged
    // by left fold (acc + part), right fold (part + acc: the accumulator is the right operand) and
    // balanced tree. Squares of tiny-scale data underflow: that family is judged on the sums only.
    if matches!(c.hist, Hist::OneByOne | Hist::LeftFold | Hist::RightFold | Hist::Balanced) && c.n >= 2 && c.family != SumFamily::TinyScale {
        let st = if c.hist == Hist::OneByOne {
            let mut st = Arithmetic::<F>::new();
            for &x in data.iter() {
                let _ = StatisticsOps::append(&mut st, x);
            }
            st
        } else {
            let sz = if c.chunk == 0 { 5 } else { c.chunk };
            let parts: Vec<Arithmetic<F>> = data.chunks(sz).map(|ch| Arithmetic::<F>::from_iter(&ch.to_vec()).unwrap()).collect();
            l.count("Arithmetic states merged (sum and sum of squares judged)");
            match c.hist {
                Hist::LeftFold => parts[1..].iter().fold(parts[0], |acc, p| acc + *p),
                Hist::RightFold => parts[1..].iter().fold(parts[0], |acc, p| *p + acc),
                _ => {
                    let mut v = parts;
                    while v.len() > 1 {
                        let mut nx = Vec::with_capacity(v.len() / 2 + 1);
                        let mut j = 0;
                        while j + 1 < v.len() {
                            nx.push(v[j] + v[j + 1]);
                            j += 2;
                        }
                        if j < v.len() {
                            nx.push(v[j]);
                        }
                        v = nx;
                    }
                    v[0]
                }
            }
        };
        let n = c.n as f64;
        let mean = st.sample_mean().f();
        l.eval();
        // |mean*n - S| <= (K_S + 2) u A   (one division)
        let merr = Rat::from_dy(s.clone()).diff_from(mean * n).abs();
        let mr = if ua > 0.0 { merr / ua } else { 0.0 };
        l.max("arithmetic_sum_error_over_u_sumabs", mr);
        if !(mr <= K_S + 3.0) && (mean * n).is_finite() {
            l.violation(
                format!("Arithmetic.sum|{}|error>K*u*sum|x|", F::TY),
                "the sum inside Arithmetic (sample_mean * count) does not inherit the compensated-sum bound".to_string(),
                serde_json::to_value(c).unwrap(),
                json!({"sample_mean": mean, "n": c.n, "exact_sum": s.to_f64(), "ratio": mr}),
            );
        }
        // sum of squares, observed through the variance: (n-1) V = Q - S^2/n
        let q = acc.sum_sq();
        let qf = q.to_f64();
        let stx = sci_common::exact::stats_of_acc(&acc);
        if let Some(v) = &stx.var {
            let var = st.sample_variance().f();
            let verr = v.diff_from(var).abs() * (n - 1.0);
            let uq = F::U * qf;
            // the data are squared in F before accumulation: one rounding per term (u Q), plus
            // the compensated sum (K_S u Q), plus mean*sum and the subtraction (3 u Q), division
            let vr = if uq > 0.0 { verr / uq } else { 0.0 };
            l.max("arithmetic_sumsq_error_over_u_sumsq", vr);
            if !(vr <= K_S + 6.0) && var.is_finite() {
                l.violation(
                    format!("Arithmetic.sum_sq|{}|error>K*u*sum(x^2)", F::TY),
                    "the sum of squares inside Arithmetic (observed through sample_variance) does not inherit the compensated-sum bound".to_string(),
                    serde_json::to_value(c).unwrap(),
                    json!({"sample_variance": var, "exact_variance": stx.var_f, "n": c.n, "sum_sq": qf, "ratio": vr}),
                );
            }
        }
    }
}

fn make_case(seed: u64, i: u64, quick: bool) -> Case {
    let mut r = Rng::from(&[seed, 0xc08, i]);
    let f32 = i % 2 == 0;
    let family = FAMILIES[(i / 2 % 10) as usize];
    let hist = HISTS[(i / 20 % 9) as usize];
    // length ladder: mostly short, some long
    let n = match r.below(100) {
        0..=39 => r.range(1, 99) as usize,
        40..=69 => r.range(100, 9_999) as usize,
        70..=93 => r.range(10_000, 200_000) as usize,
        94..=98 => 1_000_000,
        _ => {
            if quick {
                1_000_000
            } else if f32 {
                10_000_000
            } else {
                4_000_000
            }
        }
    };
    let chunk = *r.pick(&[1usize, 2, 3, 7, 1000, 0, 0]);
    Case { f32, family, n, seed: r.next_u64(), hist, chunk }
}

pub fn run(run: &Arc<Run>) {
    let seed = run.cfg.seed;
    let quick = run.cfg.quick();
    run.set_rule(format!(
        "seeded histories: 10 data families (constants 1.1/0.1/1/3/0.7, same-sign uniform, log-uniform 2^±40 (f32: ±30), mixed sign, large+many small-large, alternating near-cancelling, tiny increments on a large base, dyadic, tiny scale with subnormal ulps, equal dyadic increments on a base whose ulp exceeds them) x f32/f64 x lengths 1..10^6 ({} in the thorough tier) \
         x 9 histories (+= x; one accumulator fed alternately by value and by register; s = s + x; += KahanSum::from(x); registers over chunks of size 1,2,3,7,1000,random merged by left fold / right fold (receiver is the smaller register) / balanced tree / random tree / random tree with interleaved scalars). \
         Oracle: exact BigInt sum; bound |value - S| <= {} u sum|x|. Naive summation runs alongside as a sensitivity witness. For += histories the sums inside Arithmetic are judged too (mean*n; variance reconstructed). \
         distinct = distinct (type, family, n, data seed, history, chunking); all non-trivial.",
        if quick { "10^6" } else { "10^7 f32 / 4*10^6 f64" },
        K_S
    ));
    run.assume("the error constant K_s = 8 is the documented 'small constant multiple' (DESIGN.md section 3)");
    if let Some(case) = &run.replay_case {
        let c: Case = serde_json::from_value(case.clone()).expect("case");
        let mut l = run.local();
        if c.f32 {
            judge::<f32>(&c, &mut l)
        } else {
            judge::<f64>(&c, &mut l)
        }
        run.absorb(l);
        return;
    }
    let n = run.cfg.by(3_000u64, 96_000);
    run.par(n, |i, l| {
        let c = make_case(seed, i, quick);
        if c.f32 {
            judge::<f32>(&c, l)
        } else {
            judge::<f64>(&c, l)
        }
    });
    let mut req: Vec<String> = vec!["Arithmetic states merged (sum and sum of squares judged)".into(), "merged registers".into(), "merged registers sampled with non-zero compensation (x16)".into()];
    for h in HISTS {
        req.push(format!("history:{:?}", h));
    }
    for ty in ["f32", "f64"] {
        for f in FAMILIES {
            req.push(format!("{}:{:?}:n<1e6", ty, f));
        }
    }
    let r: Vec<&str> = req.iter().map(|s| s.as_str()).collect();
    run.require(&r);
    let _: Option<Value> = None;
}
