//! C07 — interval predicates are exactly the set relations of the denoted closed sets.
use crate::model::M;
use sci_common::rt::{hash_str, mix, Local, Rng, Run};
use serde_json::{json, Value};
use stats_ci::Interval;
use std::fmt::Debug;
use std::ops::RangeBounds;
use std::sync::Arc;

pub fn ikind<T: PartialOrd>(i: &Interval<T>) -> &'static str {
    match i {
        Interval::TwoSided(..) => "TwoSided",
        Interval::UpperOneSided(_) => "UpperOneSided",
        Interval::LowerOneSided(_) => "LowerOneSided",
    }
}

/// all well-formed intervals over a chain (chain must be non-decreasing)
pub fn intervals<T: Clone + PartialOrd>(chain: &[T]) -> Vec<Interval<T>> {
    let mut v = vec![];
    for i in 0..chain.len() {
        for j in i..chain.len() {
            v.push(Interval::TwoSided(chain[i].clone(), chain[j].clone()));
        }
    }
    for x in chain {
        v.push(Interval::UpperOneSided(x.clone()));
    }
    for x in chain {
        v.push(Interval::LowerOneSided(x.clone()));
    }
    v
}

fn judge_pair<T: Clone + PartialOrd + Debug>(
    ty: &str,
    a: &Interval<T>,
    b: &Interval<T>,
    probes: &[T],
    case: &dyn Fn() -> Value,
    l: &mut Local,
) {
    let ma = M::of(a);
    let mb = M::of(b);
    let (ka, kb) = (ikind(a), ikind(b));
    let check = |method: &str, got: bool, want: bool, l: &mut Local| {
        l.eval();
        if got != want {
            l.violation(
                format!("{}|self={},other={}|got={}", method, ka, kb, got),
                format!("Interval::{} returns {} where the denoted sets give {} (self kind {}, other kind {})", method, got, want, ka, kb),
                case(),
                json!({"type": ty, "self": format!("{:?}", a), "other": format!("{:?}", b), "observed": got, "expected": want}),
            );
        }
    };
    let got_ab = a.intersects(b);
    let got_ba = b.intersects(a);
    check("intersects", got_ab, ma.intersects(&mb), l);
    l.eval();
    if got_ab != got_ba {
        l.violation(
            format!("intersects-asymmetric|self={},other={}", ka, kb),
            format!("intersects is not symmetric for kinds ({}, {})", ka, kb),
            case(),
            json!({"type": ty, "self": format!("{:?}", a), "other": format!("{:?}", b), "a.intersects(b)": got_ab, "b.intersects(a)": got_ba}),
        );
    }
    check("includes", a.includes(b), ma.includes(&mb), l);
    check("is_included_in", a.is_included_in(b), mb.includes(&ma), l);
    // membership through both views (judged once per (a, x): only when b is the first interval
    // would be enough, but the cost is negligible)
    for x in probes {
        let want = ma.contains(x);
        l.eval();
        let got = a.contains(x);
        if got != want {
            l.violation(
                format!("contains|self={}|got={}", ka, got),
                format!("Interval::contains returns {} for a {} member/non-member", got, ka),
                case(),
                json!({"type": ty, "self": format!("{:?}", a), "x": format!("{:?}", x), "observed": got, "expected": want}),
            );
        }
        l.eval();
        let got = <Interval<T> as RangeBounds<T>>::contains(a, x);
        if got != want {
            l.violation(
                format!("RangeBounds::contains|self={}|got={}", ka, got),
                format!("the RangeBounds view of a {} interval gives membership {} where the closed set gives {}", ka, got, want),
                case(),
                json!({"type": ty, "self": format!("{:?}", a), "x": format!("{:?}", x), "observed": got, "expected": want,
                       "start_bound": format!("{:?}", a.start_bound()), "end_bound": format!("{:?}", a.end_bound())}),
            );
        }
    }
    let fp = mix(&[hash_str(ty), hash_str(&format!("{:?}{:?}", a, b))]);
    l.nontrivial(fp);
    l.count_s(format!("{}:{}x{}", ty, ka, kb));
    if l.wants_sample(&format!("{}x{}", ka, kb)) {
        l.sample(&format!("{}x{}", ka, kb), || {
            json!({"type": ty, "self": format!("{:?}", a), "other": format!("{:?}", b),
                   "intersects": got_ab, "model_intersects": ma.intersects(&mb),
                   "includes": a.includes(b), "model_includes": ma.includes(&mb)})
        });
    }
}

/// A NaN probe is a member of no closed set of reals; both views must say so (and hence agree)
fn judge_nan_probe(ty: &str, a: &Interval<f64>, case: &dyn Fn() -> Value, l: &mut Local) {
    for x in [f64::NAN, -f64::NAN] {
        l.eval();
        l.count("NaN probe judged");
        let (g1, g2) = (a.contains(&x), <Interval<f64> as RangeBounds<f64>>::contains(a, &x));
        if g1 || g2 {
            l.violation(
                format!("{}|self={}|NaN-probe|got={}", if g1 { "contains" } else { "RangeBounds::contains" }, ikind(a), true),
                format!("NaN is reported as a member of a {} interval (contains: {}, RangeBounds view: {})", ikind(a), g1, g2),
                case(),
                json!({"type": ty, "self": format!("{:?}", a), "x": "NaN", "contains": g1, "RangeBounds::contains": g2}),
            );
        }
    }
}

fn sweep<T: Clone + PartialOrd + Debug + Sync + Send>(run: &Arc<Run>, ty: &'static str, chain: Vec<T>, probes: Vec<T>) {
    let ivs = intervals(&chain);
    let n = ivs.len() as u64;
    if let Some(case) = &run.replay_case {
        if case["ty"] == ty {
            let (ia, ib) = (case["a"].as_u64().unwrap() as usize, case["b"].as_u64().unwrap() as usize);
            let mut l = run.local();
            judge_pair(ty, &ivs[ia], &ivs[ib], &probes, &|| case.clone(), &mut l);
            run.absorb(l);
        }
        return;
    }
    run.par(n * n, |i, l| {
        let (ia, ib) = ((i / n) as usize, (i % n) as usize);
        judge_pair(ty, &ivs[ia], &ivs[ib], &probes, &|| json!({"ty": ty, "a": ia, "b": ib}), l);
    });
}

fn rand_interval_i64(r: &mut Rng) -> Interval<i64> {
    let span = *r.pick(&[3i64, 10, 1000, i64::MAX / 2]);
    let a = r.range(-span, span);
    let b = r.range(-span, span);
    match r.below(3) {
        0 => Interval::TwoSided(a.min(b), a.max(b)),
        1 => Interval::UpperOneSided(a),
        _ => Interval::LowerOneSided(a),
    }
}
fn rand_interval_f64(r: &mut Rng) -> Interval<f64> {
    let g = |r: &mut Rng| -> f64 {
        match r.below(8) {
            0 => 0.0,
            1 => -0.0,
            2 => r.range(-3, 3) as f64,
            3 => f64::INFINITY * if r.bool() { 1.0 } else { -1.0 },
            4 => r.uniform(-1.0, 1.0) * 1e300,
            5 => r.uniform(-1.0, 1.0) * 1e-300,
            _ => r.uniform(-10.0, 10.0),
        }
    };
    let a = g(r);
    let b = g(r);
    match r.below(3) {
        0 => Interval::TwoSided(a.min(b), a.max(b)),
        1 => Interval::UpperOneSided(a),
        _ => Interval::LowerOneSided(a),
    }
}

pub fn run(run: &Arc<Run>) {
    run.set_rule(
        "exhaustive: every ordered pair of well-formed intervals (3 kinds) over a totally ordered chain x every probe value, for i32 {0..6}, f64 {-inf,-1,-0.0,+0.0,1,+inf}, char, &str, String; plus seeded random i64/f64 pairs. \
         Each (a,b) is judged for intersects (both directions), includes, is_included_in and, per probe, contains and RangeBounds::contains against the extended-real closed-set model; for f64 intervals a NaN probe is a member of none, through either view. \
         A case is a pair of intervals (all are non-trivial); distinct = distinct (type, a, b) fingerprints.",
    );
    run.set_exhaustive(true);
    run.assume("interval bounds are not NaN and two-sided intervals are well-formed (low <= high), as the property's quantifier states");
    sweep::<i32>(run, "i32", (0..7).collect(), (-1..8).collect());
    sweep::<f64>(
        run,
        "f64",
        vec![f64::NEG_INFINITY, -1.0, -0.0, 0.0, 1.0, f64::INFINITY],
        vec![f64::NEG_INFINITY, -2.0, -1.0, -0.0, 0.0, 0.5, 1.0, 2.0, f64::INFINITY],
    );
    {
        let mut l = run.local();
        for (ia, a) in intervals(&[f64::NEG_INFINITY, -1.0, -0.0, 0.0, 1.0, f64::INFINITY]).iter().enumerate() {
            judge_nan_probe("f64", a, &|| json!({"ty": "f64-nan", "a": ia}), &mut l);
        }
        run.absorb(l);
    }
    sweep::<char>(run, "char", vec!['a', 'b', 'c', 'd', 'e'], vec!['A', 'a', 'b', 'c', 'd', 'e', 'f']);
    sweep::<&str>(run, "&str", vec!["", "a", "ab", "b", "ba"], vec!["", "a", "aa", "ab", "b", "ba", "c"]);
    sweep::<String>(
        run,
        "String",
        ["", "a", "ab", "b"].iter().map(|s| s.to_string()).collect(),
        ["", "a", "aa", "ab", "b", "c"].iter().map(|s| s.to_string()).collect(),
    );
    sweep::<u8>(run, "u8", vec![0, 1, 127, 254, 255], vec![0, 1, 2, 127, 128, 254, 255]);

    // random guard against value-dependent code
    let nrand: u64 = run.cfg.by(100_000, 10_000_000);
    let seed = run.cfg.seed;
    let judge_rand = |ty: &'static str, i: u64, l: &mut Local| {
        let mut r = Rng::from(&[seed, hash_str(ty), i]);
        let case = || json!({"ty": ty, "i": i});
        if ty == "rand-i64" {
            let a = rand_interval_i64(&mut r);
            let b = rand_interval_i64(&mut r);
            let probes: Vec<i64> = (0..3).map(|_| r.range(-12, 12)).chain([i64::MIN, i64::MAX]).collect();
            judge_pair(ty, &a, &b, &probes, &case, l);
        } else {
            let a = rand_interval_f64(&mut r);
            let b = rand_interval_f64(&mut r);
            let probes: Vec<f64> = vec![r.uniform(-10.0, 10.0), 0.0, -0.0, f64::INFINITY, f64::NEG_INFINITY, r.range(-3, 3) as f64];
            judge_pair(ty, &a, &b, &probes, &case, l);
            judge_nan_probe(ty, &a, &case, l);
        }
    };
    if let Some(case) = &run.replay_case {
        for ty in ["rand-i64", "rand-f64"] {
            if case["ty"] == ty {
                let mut l = run.local();
                judge_rand(ty, case["i"].as_u64().unwrap(), &mut l);
                run.absorb(l);
            }
        }
        return;
    }
    run.par(nrand, |i, l| judge_rand("rand-i64", i, l));
    run.par(nrand, |i, l| judge_rand("rand-f64", i, l));
    let mut req = vec![];
    for a in ["TwoSided", "UpperOneSided", "LowerOneSided"] {
        for b in ["TwoSided", "UpperOneSided", "LowerOneSided"] {
            for ty in ["i32", "f64", "&str"] {
                req.push(format!("{}:{}x{}", ty, a, b));
            }
        }
    }
    req.push("NaN probe judged".to_string());
    let req: Vec<&str> = req.iter().map(|s| s.as_str()).collect();
    run.require(&req);
}
