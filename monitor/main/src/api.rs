//! Thin helpers at the API boundary of the crate under test: confidence construction, outcome
//! classification of results, observation records.
#![allow(dead_code)]

use sci_common::gen::Kind;
use sci_common::rt::{caught, jf, Panicked};
use serde_json::{json, Value};
use stats_ci::error::CIError;
use stats_ci::{Confidence, Interval};

pub fn conf(kind: Kind, level: f64) -> Confidence {
    // built through the enum (public variants) so that the level is carried verbatim
    match kind {
        Kind::Two => Confidence::TwoSided(level),
        Kind::Upper => Confidence::UpperOneSided(level),
        Kind::Lower => Confidence::LowerOneSided(level),
    }
}

/// Observed interval over f64 (f32 results are widened exactly).
#[derive(Clone, Copy, Debug, PartialEq)]
pub struct Obs {
    pub kind: Kind,
    /// lower bound (NEG_INFINITY when the side is absent)
    pub lo: f64,
    /// upper bound (INFINITY when the side is absent)
    pub hi: f64,
}

impl Obs {
    pub fn of64(i: &Interval<f64>) -> Obs {
        match i {
            Interval::TwoSided(a, b) => Obs { kind: Kind::Two, lo: *a, hi: *b },
            Interval::UpperOneSided(a) => Obs { kind: Kind::Upper, lo: *a, hi: f64::INFINITY },
            Interval::LowerOneSided(b) => Obs { kind: Kind::Lower, lo: f64::NEG_INFINITY, hi: *b },
        }
    }
    pub fn of32(i: &Interval<f32>) -> Obs {
        match i {
            Interval::TwoSided(a, b) => Obs { kind: Kind::Two, lo: *a as f64, hi: *b as f64 },
            Interval::UpperOneSided(a) => Obs { kind: Kind::Upper, lo: *a as f64, hi: f64::INFINITY },
            Interval::LowerOneSided(b) => Obs { kind: Kind::Lower, lo: f64::NEG_INFINITY, hi: *b as f64 },
        }
    }
    pub fn ofusize(i: &Interval<usize>) -> (Kind, Option<usize>, Option<usize>) {
        match i {
            Interval::TwoSided(a, b) => (Kind::Two, Some(*a), Some(*b)),
            Interval::UpperOneSided(a) => (Kind::Upper, Some(*a), None),
            Interval::LowerOneSided(b) => (Kind::Lower, None, Some(*b)),
        }
    }
    pub fn json(&self) -> Value {
        json!({"kind": self.kind.name(), "lo": jf(self.lo), "hi": jf(self.hi)})
    }
    pub fn bits(&self) -> (u8, u64, u64) {
        (self.kind as u8, self.lo.to_bits(), self.hi.to_bits())
    }
    pub fn has_nan(&self) -> bool {
        self.lo.is_nan() || self.hi.is_nan()
    }
    pub fn inverted(&self) -> bool {
        self.lo > self.hi
    }
}

/// Outcome classes of a monitored call.
#[derive(Clone, Debug)]
pub enum Out<T> {
    Ok(T),
    Err(ErrFam, String),
    Panic(Panicked),
}

#[derive(Clone, Copy, Debug, PartialEq, Eq, Hash)]
pub enum ErrFam {
    TooFewSamples,
    TooFewSuccesses,
    TooFewFailures,
    InvalidConfidenceLevel,
    InvalidQuantile,
    InvalidSuccesses,
    NonPositiveValue,
    InvalidInputData,
    FloatConversionError,
    IndexError,
    StringError,
    IntervalError,
    DifferentSampleSizes,
}

pub fn fam(e: &CIError) -> ErrFam {
    match e {
        CIError::TooFewSamples(_) => ErrFam::TooFewSamples,
        CIError::TooFewSuccesses(..) => ErrFam::TooFewSuccesses,
        CIError::TooFewFailures(..) => ErrFam::TooFewFailures,
        CIError::InvalidConfidenceLevel(_) => ErrFam::InvalidConfidenceLevel,
        CIError::InvalidQuantile(_) => ErrFam::InvalidQuantile,
        CIError::InvalidSuccesses(..) => ErrFam::InvalidSuccesses,
        CIError::NonPositiveValue(_) => ErrFam::NonPositiveValue,
        CIError::InvalidInputData => ErrFam::InvalidInputData,
        CIError::FloatConversionError(_) => ErrFam::FloatConversionError,
        CIError::IndexError(..) => ErrFam::IndexError,
        CIError::Error(_) => ErrFam::StringError,
        CIError::IntervalError(_) => ErrFam::IntervalError,
        CIError::DifferentSampleSizes(..) => ErrFam::DifferentSampleSizes,
    }
}

impl ErrFam {
    pub fn name(&self) -> &'static str {
        match self {
            ErrFam::TooFewSamples => "TooFewSamples",
            ErrFam::TooFewSuccesses => "TooFewSuccesses",
            ErrFam::TooFewFailures => "TooFewFailures",
            ErrFam::InvalidConfidenceLevel => "InvalidConfidenceLevel",
            ErrFam::InvalidQuantile => "InvalidQuantile",
            ErrFam::InvalidSuccesses => "InvalidSuccesses",
            ErrFam::NonPositiveValue => "NonPositiveValue",
            ErrFam::InvalidInputData => "InvalidInputData",
            ErrFam::FloatConversionError => "FloatConversionError",
            ErrFam::IndexError => "IndexError",
            ErrFam::StringError => "Error",
            ErrFam::IntervalError => "IntervalError",
            ErrFam::DifferentSampleSizes => "DifferentSampleSizes",
        }
    }
}

/// Run a fallible API call under catch_unwind and classify the outcome.
pub fn call<T>(f: impl FnOnce() -> Result<T, CIError>) -> Out<T> {
    match caught(f) {
        Ok(Ok(v)) => Out::Ok(v),
        Ok(Err(e)) => Out::Err(fam(&e), format!("{:?}", e)),
        Err(p) => Out::Panic(p),
    }
}

impl<T> Out<T> {
    pub fn class(&self) -> String {
        match self {
            Out::Ok(_) => "Ok".into(),
            Out::Err(f, _) => format!("Err({})", f.name()),
            Out::Panic(p) => format!("panic@{}", p.location),
        }
    }
    pub fn describe(&self) -> String
    where
        T: std::fmt::Debug,
    {
        match self {
            Out::Ok(v) => format!("Ok({:?})", v),
            Out::Err(_, s) => format!("Err({})", s),
            Out::Panic(p) => format!("panic@{}: {}", p.location, p.message),
        }
    }
    pub fn ok(self) -> Option<T> {
        match self {
            Out::Ok(v) => Some(v),
            _ => None,
        }
    }
    pub fn is_ok(&self) -> bool {
        matches!(self, Out::Ok(_))
    }
    pub fn err_fam(&self) -> Option<ErrFam> {
        match self {
            Out::Err(f, _) => Some(*f),
            _ => None,
        }
    }
    pub fn map<U>(self, f: impl FnOnce(T) -> U) -> Out<U> {
        match self {
            Out::Ok(v) => Out::Ok(f(v)),
            Out::Err(a, b) => Out::Err(a, b),
            Out::Panic(p) => Out::Panic(p),
        }
    }
}

pub fn kind_of_conf(c: &Confidence) -> Kind {
    match c {
        Confidence::TwoSided(_) => Kind::Two,
        Confidence::UpperOneSided(_) => Kind::Upper,
        Confidence::LowerOneSided(_) => Kind::Lower,
    }
}
