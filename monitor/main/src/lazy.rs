//! Collections whose by-reference iterators do not know their own length. The crate's data entry
//! points take `&I where &I: IntoIterator`, which admits any user-defined view (filtered, chained,
//! generated); std collections all report exact size hints, so an implementation that trusts
//! `size_hint()` (or `len()` of something it did not collect itself) is invisible with `Vec` alone.
use std::iter::{Chain, Filter};
use std::slice::Iter;

fn keep<T>(_: &&T) -> bool {
    true
}

/// `size_hint() == (0, Some(len))`
pub struct Lazy<T>(pub Vec<T>);
impl<'a, T> IntoIterator for &'a Lazy<T> {
    type Item = &'a T;
    type IntoIter = Filter<Iter<'a, T>, fn(&&'a T) -> bool>;
    fn into_iter(self) -> Self::IntoIter {
        self.0.iter().filter(keep::<T> as fn(&&'a T) -> bool)
    }
}

/// `size_hint() == (head, Some(len))`: the first `head` elements are announced, the rest are not
pub struct HeadKnown<T>(pub Vec<T>, pub usize);
impl<'a, T> IntoIterator for &'a HeadKnown<T> {
    type Item = &'a T;
    type IntoIter = Chain<Iter<'a, T>, Filter<Iter<'a, T>, fn(&&'a T) -> bool>>;
    fn into_iter(self) -> Self::IntoIter {
        let (h, t) = self.0.split_at(self.1.min(self.0.len()));
        h.iter().chain(t.iter().filter(keep::<T> as fn(&&'a T) -> bool))
    }
}

/// A column with missing entries: only the present values are yielded, `size_hint() == (0, Some(slots))`
/// where `slots` exceeds the number of values by the number of holes.
pub struct Sparse<T>(pub Vec<Option<T>>);
impl<T: Clone> Sparse<T> {
    /// `values` with `holes` missing entries spread over it (deterministic positions)
    pub fn of(values: &[T], holes: usize) -> Self {
        let mut v: Vec<Option<T>> = values.iter().cloned().map(Some).collect();
        for h in 0..holes {
            let pos = if v.is_empty() { 0 } else { (h * 7 + 1) % (v.len() + 1) };
            v.insert(pos, None);
        }
        Sparse(v)
    }
}
impl<'a, T> IntoIterator for &'a Sparse<T> {
    type Item = &'a T;
    type IntoIter = std::iter::Flatten<Iter<'a, Option<T>>>;
    fn into_iter(self) -> Self::IntoIter {
        self.0.iter().flatten()
    }
}

/// by-value iterator of unknown length (for `FromIterator` / `Extend` style entry points)
pub fn unsized_iter<T: Copy>(v: &[T], how: usize) -> Box<dyn Iterator<Item = T> + '_> {
    match how % 4 {
        0 => Box::new(v.iter().copied()),
        1 => Box::new(v.iter().copied().filter(|_| true)),
        2 => Box::new(v.chunks(3).flat_map(|c| c.iter().copied())),
        _ => {
            let mut left = v.len();
            Box::new(v.iter().copied().take_while(move |_| {
                let go = left > 0;
                left = left.saturating_sub(1);
                go
            }))
        }
    }
}

/// run `f` with the data wrapped the `how`-th way (0: Vec, 1: Lazy, 2: HeadKnown(len/2))
#[macro_export]
macro_rules! with_view {
    ($how:expr, $v:expr, |$d:ident| $body:expr) => {{
        match $how % 3 {
            0 => {
                let $d = &$v;
                $body
            }
            1 => {
                let w = $crate::lazy::Lazy($v.clone());
                let $d = &w;
                $body
            }
            _ => {
                let h = $v.len() / 2;
                let w = $crate::lazy::HeadKnown($v.clone(), h);
                let $d = &w;
                $body
            }
        }
    }};
}
