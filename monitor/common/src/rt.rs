//! Runtime shared by all monitors: PRNG, coverage recorder, violation reports, known findings,
//! sharded runner with panic capture, watchdog, evidence writer.

use serde_json::{json, Map, Value};
use std::collections::{BTreeMap, HashMap};
use std::sync::atomic::{AtomicU64, AtomicUsize, Ordering};
use std::sync::{Arc, Mutex};
use std::time::Instant;

// ------------------------------------------------------------------------------------------
// PRNG (splitmix64 seeding + xoshiro256**), own code: no dependency shared with the crate.
// ------------------------------------------------------------------------------------------

#[derive(Clone, Debug)]
pub struct Rng {
    s: [u64; 4],
}

pub fn splitmix(x: &mut u64) -> u64 {
    *x = x.wrapping_add(0x9E3779B97F4A7C15);
    let mut z = *x;
    z = (z ^ (z >> 30)).wrapping_mul(0xBF58476D1CE4E5B9);
    z = (z ^ (z >> 27)).wrapping_mul(0x94D049BB133111EB);
    z ^ (z >> 31)
}

/// 64-bit mix of several words (used for seeds and fingerprints).
pub fn mix(words: &[u64]) -> u64 {
    let mut h = 0x243F6A8885A308D3u64;
    for &w in words {
        let mut x = h ^ w;
        h = splitmix(&mut x) ^ h.rotate_left(23);
    }
    let mut x = h;
    splitmix(&mut x)
}

pub fn hash_f64s(xs: &[f64]) -> u64 {
    let mut h = 0x13198A2E03707344u64 ^ xs.len() as u64;
    for &x in xs {
        let mut y = h ^ x.to_bits();
        h = splitmix(&mut y).wrapping_add(h.rotate_left(17));
    }
    h
}

pub fn hash_str(s: &str) -> u64 {
    let mut h = 0xcbf29ce484222325u64;
    for b in s.bytes() {
        h ^= b as u64;
        h = h.wrapping_mul(0x100000001b3);
    }
    h
}

impl Rng {
    pub fn new(seed: u64) -> Self {
        let mut x = seed;
        let s = [splitmix(&mut x), splitmix(&mut x), splitmix(&mut x), splitmix(&mut x)];
        Rng { s }
    }
    pub fn from(words: &[u64]) -> Self {
        Self::new(mix(words))
    }
    #[inline]
    pub fn next_u64(&mut self) -> u64 {
        let r = self.s[1].wrapping_mul(5).rotate_left(7).wrapping_mul(9);
        let t = self.s[1] << 17;
        self.s[2] ^= self.s[0];
        self.s[3] ^= self.s[1];
        self.s[1] ^= self.s[2];
        self.s[0] ^= self.s[3];
        self.s[2] ^= t;
        self.s[3] = self.s[3].rotate_left(45);
        r
    }
    /// uniform in [0,1) with 53 bits
    #[inline]
    pub fn f64(&mut self) -> f64 {
        (self.next_u64() >> 11) as f64 * (1.0 / 9007199254740992.0)
    }
    /// uniform integer in [0, n)
    #[inline]
    pub fn below(&mut self, n: u64) -> u64 {
        if n == 0 {
            return 0;
        }
        ((self.next_u64() as u128 * n as u128) >> 64) as u64
    }
    /// uniform integer in [lo, hi] inclusive
    #[inline]
    pub fn range(&mut self, lo: i64, hi: i64) -> i64 {
        lo + self.below((hi - lo + 1) as u64) as i64
    }
    #[inline]
    pub fn bool(&mut self) -> bool {
        self.next_u64() >> 63 == 1
    }
    #[inline]
    pub fn chance(&mut self, p: f64) -> bool {
        self.f64() < p
    }
    pub fn uniform(&mut self, lo: f64, hi: f64) -> f64 {
        lo + (hi - lo) * self.f64()
    }
    /// sum of 12 uniforms - 6: approximately standard normal, bounded
    pub fn normalish(&mut self) -> f64 {
        let mut s = 0.0;
        for _ in 0..12 {
            s += self.f64();
        }
        s - 6.0
    }
    pub fn shuffle<T>(&mut self, v: &mut [T]) {
        for i in (1..v.len()).rev() {
            let j = self.below(i as u64 + 1) as usize;
            v.swap(i, j);
        }
    }
    pub fn pick<'a, T>(&mut self, v: &'a [T]) -> &'a T {
        &v[self.below(v.len() as u64) as usize]
    }
}

// ------------------------------------------------------------------------------------------
// Configuration
// ------------------------------------------------------------------------------------------

#[derive(Clone, Debug, PartialEq, Eq)]
pub enum Tier {
    Quick,
    Thorough,
}

#[derive(Clone, Debug)]
pub struct Cfg {
    pub id: String,
    pub tier: Tier,
    pub seed: u64,
    pub out: String,
    pub replays: String,
    pub known: String,
    pub threads: usize,
    pub replay: Option<String>,
    pub extra: Vec<String>,
}

impl Cfg {
    pub fn quick(&self) -> bool {
        self.tier == Tier::Quick
    }
    pub fn tier_str(&self) -> &'static str {
        if self.quick() {
            "quick"
        } else {
            "thorough"
        }
    }
    /// choose by tier
    pub fn by<T>(&self, quick: T, thorough: T) -> T {
        if self.quick() {
            quick
        } else {
            thorough
        }
    }
    pub fn parse(args: &[String]) -> Cfg {
        let mut id = String::new();
        let mut tier = match std::env::var("VERIF_TIER").ok().as_deref() {
            Some("thorough") => Tier::Thorough,
            _ => Tier::Quick,
        };
        let mut seed: u64 = std::env::var("VERIF_SEED")
            .ok()
            .and_then(|s| s.trim().parse::<i64>().ok())
            .map(|s| s as u64)
            .unwrap_or(1);
        let mut out = String::new();
        let mut replays = String::new();
        let mut known = "/verif/known_findings.txt".to_string();
        let mut threads = std::thread::available_parallelism().map(|n| n.get()).unwrap_or(4).min(16);
        let mut replay = None;
        let mut extra = vec![];
        let mut i = 0;
        while i < args.len() {
            let a = &args[i];
            let mut val = || {
                i += 1;
                args.get(i).cloned().unwrap_or_default()
            };
            match a.as_str() {
                "--tier" => {
                    tier = if val() == "thorough" { Tier::Thorough } else { Tier::Quick }
                }
                "--seed" => seed = val().parse::<i64>().unwrap_or(1) as u64,
                "--out" => out = val(),
                "--replays" => replays = val(),
                "--known" => known = val(),
                "--threads" => threads = val().parse().unwrap_or(threads),
                "--replay" => replay = Some(val()),
                s if id.is_empty() && !s.starts_with("--") => id = s.to_string(),
                s => extra.push(s.to_string()),
            }
            i += 1;
        }
        if out.is_empty() {
            out = format!("/verif/evidence/{}.json", id);
        }
        if replays.is_empty() {
            replays = format!("/verif/replays/{}", id);
        }
        Cfg { id, tier, seed, out, replays, known, threads: threads.max(1), replay, extra }
    }
}

// ------------------------------------------------------------------------------------------
// Distinct-case counter: shared atomic bitset; popcount is a conservative (lower-bound) count of
// distinct fingerprints (collisions can only lose, never invent, a case).
// ------------------------------------------------------------------------------------------

pub struct Distinct {
    bits: Vec<AtomicU64>,
    mask: u64,
}

impl Distinct {
    pub fn new(log2_bits: u32) -> Self {
        let words = 1usize << (log2_bits - 6);
        let mut bits = Vec::with_capacity(words);
        bits.resize_with(words, || AtomicU64::new(0));
        Distinct { bits, mask: (1u64 << log2_bits) - 1 }
    }
    #[inline]
    pub fn insert(&self, h: u64) {
        let mut x = h;
        let k = splitmix(&mut x) & self.mask;
        let w = (k >> 6) as usize;
        let b = 1u64 << (k & 63);
        if self.bits[w].load(Ordering::Relaxed) & b == 0 {
            self.bits[w].fetch_or(b, Ordering::Relaxed);
        }
    }
    pub fn count(&self) -> u64 {
        self.bits.iter().map(|w| w.load(Ordering::Relaxed).count_ones() as u64).sum()
    }
}

// ------------------------------------------------------------------------------------------
// Violations
// ------------------------------------------------------------------------------------------

#[derive(Clone, Debug)]
pub struct Violation {
    pub sig: String,
    pub what: String,
    pub case: Value,
    pub detail: Value,
}

/// Per-thread recorder. Merged at the end of a run.
pub struct Local {
    pub evals: u64,
    pub counts: HashMap<&'static str, u64>,
    pub counts_s: BTreeMap<String, u64>,
    pub maxima: BTreeMap<&'static str, (f64, Value)>,
    pub samples: BTreeMap<String, Vec<Value>>,
    pub violations: BTreeMap<String, (Violation, u64)>,
    pub distinct: Arc<Distinct>,
    pub nontrivial: u64,
    pub per_class_samples: usize,
    pub trace: bool,
}

impl Local {
    pub fn new(distinct: Arc<Distinct>) -> Self {
        Local {
            evals: 0,
            counts: HashMap::new(),
            counts_s: BTreeMap::new(),
            maxima: BTreeMap::new(),
            samples: BTreeMap::new(),
            violations: BTreeMap::new(),
            distinct,
            nontrivial: 0,
            per_class_samples: 1,
            trace: false,
        }
    }
    /// one judged API call / relation
    #[inline]
    pub fn eval(&mut self) {
        self.evals += 1;
    }
    #[inline]
    pub fn evals(&mut self, n: u64) {
        self.evals += n;
    }
    /// a non-trivial case with the fingerprint of its complete input
    #[inline]
    pub fn nontrivial(&mut self, fingerprint: u64) {
        self.nontrivial += 1;
        self.distinct.insert(fingerprint);
    }
    #[inline]
    pub fn count(&mut self, class: &'static str) {
        *self.counts.entry(class).or_insert(0) += 1;
    }
    #[inline]
    pub fn count_n(&mut self, class: &'static str, n: u64) {
        *self.counts.entry(class).or_insert(0) += n;
    }
    pub fn count_s(&mut self, class: String) {
        *self.counts_s.entry(class).or_insert(0) += 1;
    }
    /// keep the maximum of a metric together with the case that produced it
    #[inline]
    pub fn max(&mut self, name: &'static str, v: f64) {
        if v.is_nan() {
            return;
        }
        match self.maxima.get_mut(name) {
            Some(e) => {
                if v > e.0 {
                    e.0 = v;
                    e.1 = Value::Null;
                }
            }
            None => {
                self.maxima.insert(name, (v, Value::Null));
            }
        }
    }
    pub fn max_with(&mut self, name: &'static str, v: f64, wit: impl FnOnce() -> Value) {
        if v.is_nan() {
            return;
        }
        let better = match self.maxima.get(name) {
            Some(e) => v > e.0,
            None => true,
        };
        if better {
            self.maxima.insert(name, (v, wit()));
        }
    }
    /// store up to `per_class_samples` samples per class
    pub fn sample(&mut self, class: &str, f: impl FnOnce() -> Value) {
        let need = match self.samples.get(class) {
            Some(v) => v.len() < self.per_class_samples,
            None => true,
        };
        if need {
            self.samples.entry(class.to_string()).or_default().push(f());
        }
    }
    pub fn wants_sample(&self, class: &str) -> bool {
        match self.samples.get(class) {
            Some(v) => v.len() < self.per_class_samples,
            None => true,
        }
    }
    /// record a violation (deduplicated by signature; first witness kept, occurrences counted)
    pub fn violation(&mut self, sig: impl Into<String>, what: impl Into<String>, case: Value, detail: Value) {
        let sig: String = sig.into().split_whitespace().collect::<Vec<_>>().join("_");
        match self.violations.get_mut(&sig) {
            Some(e) => e.1 += 1,
            None => {
                self.violations
                    .insert(sig.clone(), (Violation { sig, what: what.into(), case, detail }, 1));
            }
        }
    }
    pub fn merge(&mut self, o: Local) {
        self.evals += o.evals;
        self.nontrivial += o.nontrivial;
        for (k, v) in o.counts {
            *self.counts.entry(k).or_insert(0) += v;
        }
        for (k, v) in o.counts_s {
            *self.counts_s.entry(k).or_insert(0) += v;
        }
        for (k, v) in o.maxima {
            let better = match self.maxima.get(k) {
                Some(e) => v.0 > e.0,
                None => true,
            };
            if better {
                self.maxima.insert(k, v);
            }
        }
        for (k, v) in o.samples {
            let e = self.samples.entry(k).or_default();
            for s in v {
                if e.len() < self.per_class_samples {
                    e.push(s);
                }
            }
        }
        for (k, v) in o.violations {
            match self.violations.get_mut(&k) {
                Some(e) => e.1 += v.1,
                None => {
                    self.violations.insert(k, v);
                }
            }
        }
    }
}

// ------------------------------------------------------------------------------------------
// Panic capture
// ------------------------------------------------------------------------------------------

thread_local! {
    static LAST_PANIC: std::cell::RefCell<Option<(String, String)>> = std::cell::RefCell::new(None);
    static QUIET: std::cell::Cell<bool> = std::cell::Cell::new(false);
}

/// Install a process-wide hook that records `file:line` and the message per thread and stays
/// silent for threads that are inside `caught`.
pub fn install_panic_hook() {
    let default = std::panic::take_hook();
    std::panic::set_hook(Box::new(move |info| {
        let loc = info
            .location()
            .map(|l| format!("{}:{}", shorten(l.file()), l.line()))
            .unwrap_or_else(|| "?".into());
        let msg = if let Some(s) = info.payload().downcast_ref::<&str>() {
            s.to_string()
        } else if let Some(s) = info.payload().downcast_ref::<String>() {
            s.clone()
        } else {
            "<non-string panic>".to_string()
        };
        let quiet = QUIET.with(|q| q.get());
        LAST_PANIC.with(|p| *p.borrow_mut() = Some((loc, msg)));
        if !quiet {
            default(info);
        }
    }));
}

fn shorten(file: &str) -> String {
    // keep the path from "src/" on for crate files, and crate-name/src/... for registry files
    if let Some(i) = file.find("/registry/src/") {
        let rest = &file[i + 14..];
        if let Some(j) = rest.find('/') {
            return rest[j + 1..].to_string();
        }
    }
    if let Some(i) = file.rfind("/src/") {
        return file[i + 1..].to_string();
    }
    file.to_string()
}

#[derive(Debug, Clone)]
pub struct Panicked {
    pub location: String,
    pub message: String,
}

/// Run `f`, catching a panic; returns Err(location, message).
pub fn caught<R>(f: impl FnOnce() -> R) -> Result<R, Panicked> {
    QUIET.with(|q| q.set(true));
    LAST_PANIC.with(|p| *p.borrow_mut() = None);
    let r = std::panic::catch_unwind(std::panic::AssertUnwindSafe(f));
    QUIET.with(|q| q.set(false));
    match r {
        Ok(v) => Ok(v),
        Err(_) => {
            let (location, message) = LAST_PANIC
                .with(|p| p.borrow_mut().take())
                .unwrap_or(("?".into(), "?".into()));
            Err(Panicked { location, message })
        }
    }
}

// ------------------------------------------------------------------------------------------
// Sharded runner
// ------------------------------------------------------------------------------------------

pub struct Run {
    pub cfg: Cfg,
    pub start: Instant,
    pub distinct: Arc<Distinct>,
    pub total: Mutex<Option<Local>>,
    pub notes: Mutex<Vec<String>>,
    pub inconclusive: Mutex<Vec<String>>,
    pub extras: Mutex<Map<String, Value>>,
    pub required: Mutex<Vec<String>>,
    pub exhaustive: Mutex<Option<bool>>,
    pub rule: Mutex<String>,
    pub assumptions: Mutex<Vec<String>>,
    pub level: Mutex<String>,
    /// in replay mode: the recorded case to re-execute
    pub replay_case: Option<Value>,
    /// in replay mode: the signature recorded with the case
    pub replay_sig: Option<String>,
    /// wall time spent before this process started (builds and per-configuration runs of C20)
    pub extra_wall_s: Mutex<f64>,
}

impl Run {
    pub fn new(cfg: Cfg) -> Arc<Run> {
        let log2 = if cfg.quick() { 28 } else { 31 };
        let distinct = Arc::new(Distinct::new(if cfg.replay.is_some() { 10 } else { log2 }));
        let mut replay_sig = None;
        let replay_case = cfg.replay.as_ref().map(|p| {
            let txt = std::fs::read_to_string(p).unwrap_or_else(|e| {
                println!("INCONCLUSIVE property={} reason=replay_file_unreadable:{}", cfg.id, e);
                std::process::exit(2)
            });
            let v: Value = serde_json::from_str(&txt).unwrap_or_else(|e| {
                println!("INCONCLUSIVE property={} reason=replay_file_unparsable:{}", cfg.id, e);
                std::process::exit(2)
            });
            replay_sig = v.get("signature").and_then(|s| s.as_str()).map(|s| s.to_string());
            v.get("case").cloned().unwrap_or(v)
        });
        let run = Arc::new(Run {
            replay_case,
            replay_sig,
            extra_wall_s: Mutex::new(0.0),
            cfg,
            start: Instant::now(),
            distinct,
            total: Mutex::new(None),
            notes: Mutex::new(vec![]),
            inconclusive: Mutex::new(vec![]),
            extras: Mutex::new(Map::new()),
            required: Mutex::new(vec![]),
            exhaustive: Mutex::new(None),
            rule: Mutex::new(String::new()),
            assumptions: Mutex::new(vec![]),
            level: Mutex::new("exploration".into()),
        });
        run.clone().watchdog();
        run
    }

    fn watchdog(self: Arc<Self>) {
        let limit = std::env::var("VERIF_WATCHDOG_S")
            .ok()
            .and_then(|s| s.parse::<u64>().ok())
            .unwrap_or(if self.cfg.quick() { 600 } else { 3600 });
        let id = self.cfg.id.clone();
        std::thread::spawn(move || {
            std::thread::sleep(std::time::Duration::from_secs(limit));
            println!("INCONCLUSIVE property={} reason=watchdog_{}s", id, limit);
            std::process::exit(2);
        });
    }

    pub fn local(&self) -> Local {
        let mut l = Local::new(self.distinct.clone());
        l.per_class_samples = 1;
        l
    }

    pub fn absorb(&self, l: Local) {
        let mut t = self.total.lock().unwrap();
        match t.as_mut() {
            Some(tt) => tt.merge(l),
            None => *t = Some(l),
        }
    }

    pub fn note(&self, s: impl Into<String>) {
        self.notes.lock().unwrap().push(s.into());
    }
    pub fn inconclusive(&self, s: impl Into<String>) {
        self.inconclusive.lock().unwrap().push(s.into());
    }
    pub fn extra(&self, k: &str, v: Value) {
        self.extras.lock().unwrap().insert(k.to_string(), v);
    }
    /// Fold the outcome of the same monitor executed in another build profile into this run: its
    /// violations are re-raised here under `<lane>|<signature>`, its evaluations are added, and an
    /// unreadable or inconclusive summary makes this run inconclusive (never a silent pass).
    pub fn import_lane(&self, lane: &str, path: &str) {
        let doc: Value = match std::fs::read_to_string(path).ok().and_then(|s| serde_json::from_str(&s).ok()) {
            Some(d) => d,
            None => {
                self.inconclusive(format!("{}_lane:summary_unreadable({})", lane, path));
                return;
            }
        };
        let mut l = self.local();
        let cov = &doc["coverage"];
        if let Some(rs) = cov["inconclusive_reasons"].as_array() {
            for r in rs {
                self.inconclusive(format!("{}_lane:{}", lane, r.as_str().unwrap_or("?")));
            }
        }
        let mut sigs = vec![];
        for v in cov["violation_signatures"].as_array().cloned().unwrap_or_default() {
            let sig = v["signature"].as_str().unwrap_or("?").to_string();
            let rep: Value = v["replay"].as_str().and_then(|p| std::fs::read_to_string(p).ok()).and_then(|s| serde_json::from_str(&s).ok()).unwrap_or(Value::Null);
            let mut case = rep["case"].clone();
            if let Some(o) = case.as_object_mut() {
                o.insert("lane".into(), json!(lane));
            }
            l.violation(format!("{}|{}", lane, sig), format!("[{} build] {}", lane, v["what"].as_str().unwrap_or("")), case, rep["detail"].clone());
            sigs.push(sig);
        }
        l.evals(cov["evaluations"].as_u64().unwrap_or(0));
        if cov["evaluations"].as_u64().unwrap_or(0) > 0 {
            l.count_s(format!("{} lane judged", lane));
        }
        self.extra(
            &format!("{}_lane", lane),
            json!({"evaluations": cov["evaluations"], "distinct_nontrivial": cov["distinct_nontrivial"], "verdict": doc["verdict"], "violation_signatures": sigs, "wall_s": doc["wall_s"], "classes": cov["classes"]}),
        );
        self.absorb(l);
    }
    pub fn require(&self, classes: &[&str]) {
        let mut r = self.required.lock().unwrap();
        for c in classes {
            r.push(c.to_string());
        }
    }
    pub fn set_rule(&self, s: impl Into<String>) {
        *self.rule.lock().unwrap() = s.into();
    }
    pub fn set_exhaustive(&self, b: bool) {
        *self.exhaustive.lock().unwrap() = Some(b);
    }
    pub fn assume(&self, s: impl Into<String>) {
        self.assumptions.lock().unwrap().push(s.into());
    }
    pub fn set_level(&self, s: &str) {
        *self.level.lock().unwrap() = s.to_string();
    }

    /// A panic that escaped a monitor. If it was raised inside the crate under test (its sources are
    /// compiled from the relative path `src/...`) it happened under a call the monitor took to be total
    /// on valid input: that is the crate's doing and a violation. Raised anywhere else (monitor code, an
    /// `unwrap` on an unexpected `Err`, a dependency) it is a monitor problem and never a verdict.
    pub fn escaped_panic(&self, p: &Panicked, at: &str, l: &mut Local) {
        if p.location.starts_with("src/") {
            l.violation(
                format!("panic-inside-the-crate-under-a-call-assumed-total@{}", p.location),
                format!("the crate panicked where the monitor makes a call that is total on valid input: {}", p.message),
                json!({"what": "escaped-panic", "at": at}),
                json!({"panic_location": p.location, "message": p.message, "monitor_position": at}),
            );
        } else {
            self.inconclusive(format!("monitor_panic_{}@{}:{}", at, p.location, p.message.replace(' ', "_")));
        }
    }

    /// Run `n` work items over the configured number of threads. `f(i, local)` judges item i.
    pub fn par<F>(&self, n: u64, f: F)
    where
        F: Fn(u64, &mut Local) + Sync,
    {
        let next = AtomicU64::new(0);
        let threads = self.cfg.threads.min(n.max(1) as usize).max(1);
        // chunked dynamic scheduling
        let chunk = ((n / (threads as u64 * 64)).max(1)).min(4096);
        std::thread::scope(|s| {
            for _ in 0..threads {
                s.spawn(|| {
                    let mut l = self.local();
                    loop {
                        let a = next.fetch_add(chunk, Ordering::Relaxed);
                        if a >= n {
                            break;
                        }
                        let b = (a + chunk).min(n);
                        for i in a..b {
                            let r = caught(|| f(i, &mut l));
                            if let Err(p) = r {
                                self.escaped_panic(&p, &format!("item_{}", i), &mut l);
                            }
                        }
                    }
                    self.absorb(l);
                });
            }
        });
    }

    /// Run over a slice of prepared cases.
    pub fn par_cases<C: Sync, F>(&self, cases: &[C], f: F)
    where
        F: Fn(&C, &mut Local) + Sync,
    {
        self.par(cases.len() as u64, |i, l| f(&cases[i as usize], l));
    }

    /// Finish: write evidence + replays, print verdict lines, return the process exit code.
    pub fn finish(&self) -> i32 {
        let cfg = &self.cfg;
        let total = self.total.lock().unwrap().take().unwrap_or_else(|| self.local());
        let known = KnownFindings::load(&cfg.known, &cfg.id);
        let mut inconclusive = self.inconclusive.lock().unwrap().clone();
        inconclusive.sort();
        inconclusive.dedup();
        if cfg.replay.is_some() {
            // replay mode: re-judge one recorded case; never touches evidence or replay files
            let mut reproduced = 0;
            for (sig, (v, n)) in total.violations.iter() {
                let this = self.replay_sig.as_ref().map(|s| s == sig).unwrap_or(true);
                if this {
                    reproduced += 1;
                    println!("REPLAY property={} reproduced signature={} occurrences={}", cfg.id, sig, n);
                    println!("  what: {}", v.what);
                    println!("  detail: {}", v.detail);
                } else {
                    println!("REPLAY property={} (other violation seen while replaying) signature={} occurrences={}", cfg.id, sig, n);
                }
            }
            if reproduced == 0 && !total.violations.is_empty() {
                println!("REPLAY property={} recorded signature not reproduced on the current tree", cfg.id);
                return 0;
            }
            for r in inconclusive.iter() {
                println!("INCONCLUSIVE property={} reason={}", cfg.id, r);
            }
            if total.violations.is_empty() {
                println!("REPLAY property={} not reproduced on the current tree (judged {} evaluations)", cfg.id, total.evals);
                return if inconclusive.is_empty() { 0 } else { 2 };
            }
            return 1;
        }

        // required classes
        for c in self.required.lock().unwrap().iter() {
            let n = total.counts.get(c.as_str()).copied().unwrap_or(0)
                + total.counts_s.get(c).copied().unwrap_or(0);
            if n == 0 {
                inconclusive.push(format!("required_class_never_reached:{}", c));
            }
        }
        let distinct = self.distinct.count();
        if total.evals == 0 {
            inconclusive.push("no_evaluations".into());
        }
        if distinct < 2 && total.evals > 0 {
            inconclusive.push("fewer_than_2_distinct_nontrivial_cases".into());
        }

        // violations
        let _ = std::fs::create_dir_all(&cfg.replays);
        let mut new_v = 0u64;
        let mut known_v = 0u64;
        let mut printed = 0;
        let mut vio_json = vec![];
        for (sig, (v, n)) in total.violations.iter() {
            let is_known = known.matches(sig);
            let path = format!("{}/{:016x}.json", cfg.replays, hash_str(sig));
            let doc = json!({
                "property_id": cfg.id, "signature": sig, "what": v.what, "occurrences": n,
                "case": v.case, "detail": v.detail, "seed": cfg.seed as i64, "tier": cfg.tier_str(),
                "known_finding": is_known,
            });
            let _ = std::fs::write(&path, serde_json::to_string_pretty(&doc).unwrap());
            if is_known {
                known_v += 1;
                println!("KNOWN-FINDING: property={} {} [{}] occurrences={}", cfg.id, v.what, sig, n);
            } else {
                new_v += 1;
                if printed < 20 {
                    println!("VIOLATION property={} replay={}", cfg.id, path);
                    println!("  signature={} occurrences={} what={}", sig, n, v.what);
                    printed += 1;
                }
            }
            if vio_json.len() < 50 {
                vio_json.push(json!({"signature": sig, "what": v.what, "occurrences": n, "known": is_known, "replay": path}));
            }
        }
        for k in known.unmatched(&total.violations) {
            self.note(format!("known finding not reproduced in this run: {}", k));
        }

        // evidence
        let mut samples: Vec<Value> = vec![];
        for (class, vs) in total.samples.iter() {
            for v in vs {
                if samples.len() < 24 {
                    samples.push(json!({"class": class, "case": v}));
                }
            }
        }
        let mut classes: BTreeMap<String, u64> = total.counts_s.clone();
        for (k, v) in total.counts.iter() {
            *classes.entry(k.to_string()).or_insert(0) += v;
        }
        let mut maxima = Map::new();
        for (k, (v, w)) in total.maxima.iter() {
            maxima.insert(k.to_string(), if w.is_null() { json!(v) } else { json!({"value": v, "witness": w}) });
        }
        let mut coverage = Map::new();
        coverage.insert("evaluations".into(), json!(total.evals));
        coverage.insert("distinct_nontrivial".into(), json!(distinct));
        coverage.insert("nontrivial_cases_total".into(), json!(total.nontrivial));
        coverage.insert("rule".into(), json!(self.rule.lock().unwrap().clone()));
        coverage.insert("samples".into(), Value::Array(samples));
        if let Some(e) = *self.exhaustive.lock().unwrap() {
            coverage.insert("exhaustive".into(), json!(e));
        }
        coverage.insert("classes".into(), json!(classes));
        coverage.insert("worst_observed".into(), Value::Object(maxima));
        coverage.insert("violation_signatures".into(), Value::Array(vio_json));
        coverage.insert("notes".into(), json!(self.notes.lock().unwrap().clone()));
        coverage.insert("inconclusive_reasons".into(), json!(inconclusive));
        for (k, v) in self.extras.lock().unwrap().iter() {
            coverage.insert(k.clone(), v.clone());
        }
        let wall = self.start.elapsed().as_secs_f64() + *self.extra_wall_s.lock().unwrap();
        let verdict = if new_v > 0 {
            "violated"
        } else if !inconclusive.is_empty() {
            "inconclusive"
        } else {
            "held_on_explored"
        };
        let ev = json!({
            "property_id": cfg.id,
            "tier": cfg.tier_str(),
            "seed": cfg.seed as i64,
            "level": self.level.lock().unwrap().clone(),
            "coverage": Value::Object(coverage),
            "assumptions": self.assumptions.lock().unwrap().clone(),
            "wall_s": (wall * 1000.0).round() / 1000.0,
            "violations": new_v as i64,
            "known_findings_reproduced": known_v as i64,
            "verdict": verdict,
        });
        if let Some(dir) = std::path::Path::new(&cfg.out).parent() {
            let _ = std::fs::create_dir_all(dir);
        }
        let tmp = format!("{}.tmp", cfg.out);
        std::fs::write(&tmp, serde_json::to_string_pretty(&ev).unwrap()).expect("write evidence");
        std::fs::rename(&tmp, &cfg.out).expect("rename evidence");

        if new_v > 0 {
            println!(
                "FAIL property={} new_violation_signatures={} known={} evaluations={} wall_s={:.1}",
                cfg.id, new_v, known_v, total.evals, wall
            );
            1
        } else if !inconclusive.is_empty() {
            for r in inconclusive.iter().take(10) {
                println!("INCONCLUSIVE property={} reason={}", cfg.id, r);
            }
            2
        } else {
            println!(
                "OK property={} tier={} seed={} evaluations={} distinct_nontrivial={} known_findings={} wall_s={:.1}",
                cfg.id,
                cfg.tier_str(),
                cfg.seed,
                total.evals,
                distinct,
                known_v,
                wall
            );
            0
        }
    }
}

// ------------------------------------------------------------------------------------------
// Known findings (committed file, read-only at run time)
// ------------------------------------------------------------------------------------------

pub struct KnownFindings {
    sigs: Vec<String>,
}

impl KnownFindings {
    pub fn load(path: &str, id: &str) -> Self {
        let mut sigs = vec![];
        if let Ok(s) = std::fs::read_to_string(path) {
            for line in s.lines() {
                let line = line.trim();
                if !line.starts_with("known:") {
                    continue;
                }
                let mut prop = None;
                let mut sig = None;
                for tok in line.split_whitespace() {
                    if let Some(p) = tok.strip_prefix("property=") {
                        prop = Some(p.to_string());
                    }
                    if let Some(p) = tok.strip_prefix("sig=") {
                        sig = Some(p.to_string());
                    }
                }
                if prop.as_deref() == Some(id) {
                    if let Some(s) = sig {
                        sigs.push(s);
                    }
                }
            }
        }
        KnownFindings { sigs }
    }
    pub fn matches(&self, sig: &str) -> bool {
        self.sigs.iter().any(|s| s == sig)
    }
    pub fn unmatched(&self, seen: &BTreeMap<String, (Violation, u64)>) -> Vec<String> {
        self.sigs.iter().filter(|s| !seen.contains_key(*s)).cloned().collect()
    }
}

/// helper: number of worker threads for nested use
pub fn n_threads() -> usize {
    std::thread::available_parallelism().map(|n| n.get()).unwrap_or(4).min(16)
}

pub static GLOBAL_COUNTER: AtomicUsize = AtomicUsize::new(0);

/// f64 -> JSON that survives non-finite values (as strings)
pub fn jf(x: f64) -> Value {
    if x.is_finite() {
        json!(x)
    } else {
        json!(format!("{}", x))
    }
}
pub fn jf32(x: f32) -> Value {
    if x.is_finite() {
        json!(x)
    } else {
        json!(format!("{}", x))
    }
}

/// Development aid (oracle audit): when VERIF_TRACE=<file> is set, monitors append raw events.
pub fn trace(line: impl FnOnce() -> String) {
    use std::io::Write;
    static TRACE: std::sync::OnceLock<Option<Mutex<std::fs::File>>> = std::sync::OnceLock::new();
    let t = TRACE.get_or_init(|| std::env::var("VERIF_TRACE").ok().and_then(|p| std::fs::OpenOptions::new().create(true).append(true).open(p).ok()).map(Mutex::new));
    if let Some(f) = t {
        let _ = writeln!(f.lock().unwrap(), "{}", line());
    }
}
