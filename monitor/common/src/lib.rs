pub mod dist;
pub mod exact;
pub mod gen;
pub mod rt;

/// committed 40-digit reference tables (mpmath), compiled in so that no path is needed at run time
pub const REF_DIST_JSON: &str = include_str!("../../ref/dist.json");

#[cfg(test)]
mod tests {
    #[test]
    fn oracle_selftest() {
        let st = crate::dist::selftest(crate::REF_DIST_JSON).unwrap();
        println!(
            "points {} t_cdf {:e} quad {:e} t_ppf {:e} ncdf {:e} nppf {:e} binom {:e}",
            st.points, st.worst_t_cdf, st.worst_quad, st.worst_t_ppf_rel, st.worst_norm_cdf, st.worst_norm_ppf, st.worst_binom_rel
        );
    }
}
