//! Workload building blocks: level grid, sample families (f32/f64), permutations.

use crate::rt::Rng;
use serde::{Deserialize, Serialize};

pub const FIXED_LEVELS: [f64; 18] = [
    0.001,
    0.01,
    0.1,
    0.25,
    0.3,
    0.5,
    0.500000953674316406250, // 0.5 + 2^-20
    0.6,
    0.75,
    0.8,
    0.875,
    0.9,
    0.95,
    0.96875,
    0.975,
    0.99,
    0.999,
    0.9999,
];

/// The level grid G_L: fixed members plus `extra` seeded-random levels in [0.001, 0.9999].
pub fn level_grid(seed: u64, extra: usize) -> Vec<f64> {
    let mut v: Vec<f64> = FIXED_LEVELS.to_vec();
    let mut r = Rng::from(&[seed, 0x1e7e15]);
    for _ in 0..extra {
        v.push(r.uniform(0.001, 0.9999));
    }
    // two seeded levels in the tails, log-uniform in the tail probability: code that treats "extreme"
    // levels specially does so in a band (1-L < 1e-3, L < 1e-2, ...) that a uniform draw almost never
    // hits and that the fixed ladder 0.99 / 0.999 / 0.9999 only touches at its end points
    let mut t = Rng::from(&[seed, 0x7a115]);
    v.push((1.0 - (t.uniform((1.0e-4f64).ln(), (1.0e-2f64).ln())).exp()).min(0.9999));
    v.push((t.uniform((1.0e-3f64).ln(), (2.0e-2f64).ln())).exp().max(0.001));
    v
}

#[derive(Clone, Copy, Debug, PartialEq, Eq, Hash, Serialize, Deserialize, PartialOrd, Ord)]
pub enum Kind {
    Two,
    Upper,
    Lower,
}
pub const KINDS: [Kind; 3] = [Kind::Two, Kind::Upper, Kind::Lower];

impl Kind {
    pub fn name(&self) -> &'static str {
        match self {
            Kind::Two => "two-sided",
            Kind::Upper => "upper",
            Kind::Lower => "lower",
        }
    }
    pub fn flipped(&self) -> Kind {
        match self {
            Kind::Two => Kind::Two,
            Kind::Upper => Kind::Lower,
            Kind::Lower => Kind::Upper,
        }
    }
    /// the probability at which the critical value is the quantile
    pub fn target(&self, level: f64) -> f64 {
        match self {
            Kind::Two => 1.0 - (1.0 - level) / 2.0,
            _ => level,
        }
    }
}

#[derive(Clone, Copy, Debug, PartialEq, Eq, Hash, Serialize, Deserialize, PartialOrd, Ord)]
pub enum Family {
    SmallInts,
    Uniform01,
    Normalish,
    LogUniform,
    MixedCancel,
    TwoValued,
    NearConstant,
    Progression,
    SumAdversarial,
    Dyadic,
    PositiveWide,
    PositiveNarrow,
    /// the same exactly representable value n times (only used where a constant sample is wanted)
    Constant,
}

pub const REAL_FAMILIES: [Family; 10] = [
    Family::SmallInts,
    Family::Uniform01,
    Family::Normalish,
    Family::LogUniform,
    Family::MixedCancel,
    Family::TwoValued,
    Family::NearConstant,
    Family::Progression,
    Family::SumAdversarial,
    Family::Dyadic,
];
pub const POSITIVE_FAMILIES: [Family; 5] =
    [Family::PositiveWide, Family::PositiveNarrow, Family::Uniform01, Family::SmallInts, Family::TwoValued];

impl Family {
    pub fn name(&self) -> &'static str {
        match self {
            Family::SmallInts => "small-ints",
            Family::Uniform01 => "uniform01",
            Family::Normalish => "normalish",
            Family::LogUniform => "log-uniform",
            Family::MixedCancel => "mixed-cancel",
            Family::TwoValued => "two-valued",
            Family::NearConstant => "near-constant",
            Family::Progression => "progression",
            Family::SumAdversarial => "sum-adversarial",
            Family::Dyadic => "dyadic",
            Family::PositiveWide => "positive-wide",
            Family::PositiveNarrow => "positive-narrow",
            Family::Constant => "constant",
        }
    }
}

/// A reproducible description of a sample: either explicit data or (family, n, seed).
#[derive(Clone, Debug, Serialize, Deserialize)]
pub struct Spec {
    pub family: Family,
    pub n: usize,
    pub seed: u64,
    /// single precision data (values are exactly representable in f32)
    pub f32: bool,
    /// strictly positive data wanted
    pub positive: bool,
}

/// Generate the sample described by `spec` as f64 values. When `spec.f32` every value is exactly
/// representable in f32 (and is produced by rounding in f32).
pub fn sample(spec: &Spec) -> Vec<f64> {
    let mut r = Rng::from(&[spec.seed, spec.n as u64, spec.family as u64, spec.f32 as u64, 0x5a3b1e]);
    let n = spec.n;
    let u = if spec.f32 { 2f64.powi(-24) } else { 2f64.powi(-53) };
    let mut v: Vec<f64> = Vec::with_capacity(n);
    match spec.family {
        Family::SmallInts => {
            let lo = if spec.positive { 1 } else { -20 };
            for _ in 0..n {
                v.push(r.range(lo, 100) as f64);
            }
        }
        Family::Uniform01 => {
            let scale = *r.pick(&[1.0, 1.0, 100.0, 1e-3, 37.5]);
            let off = if spec.positive { 1e-3 } else { *r.pick(&[0.0, -0.5, 0.0, 3.0]) };
            for _ in 0..n {
                v.push((r.f64() + off) * scale);
            }
        }
        Family::Normalish => {
            let mu = *r.pick(&[0.0, 1.0, -3.0, 50.0, 1e3]);
            let sd = *r.pick(&[1.0, 0.1, 10.0, 250.0]);
            for _ in 0..n {
                v.push(mu + sd * r.normalish());
            }
        }
        Family::LogUniform => {
            // magnitudes 2^±40 around a random centre; signs mixed unless positive
            let (cmax, smax) = if spec.f32 { (15, 30) } else { (30, 40) };
            let centre = r.range(-cmax, cmax) as f64;
            let span = r.range(1, smax) as f64;
            for _ in 0..n {
                let e = centre + r.uniform(-span, span);
                let m = 1.0 + r.f64();
                let s = if spec.positive || r.bool() { 1.0 } else { -1.0 };
                v.push(s * m * e.exp2());
            }
        }
        Family::MixedCancel => {
            // mean nearly cancels relative to the spread
            let scale = (r.range(-10, 20) as f64).exp2();
            for i in 0..n {
                let x = (1.0 + r.f64()) * scale;
                v.push(if i % 2 == 0 { x } else { -x });
            }
            r.shuffle(&mut v);
        }
        Family::TwoValued => {
            let a = if spec.positive { r.uniform(0.5, 5.0) } else { r.uniform(-5.0, 5.0) };
            let b = a + r.uniform(0.01, 10.0);
            let p = r.uniform(0.05, 0.95);
            for _ in 0..n {
                v.push(if r.chance(p) { a } else { b });
            }
            // make sure both values occur
            if n >= 2 {
                v[0] = a;
                v[1] = b;
            }
        }
        Family::NearConstant => {
            // constant + jitter with a target kappa chosen log-uniformly in [1, 2^-13/u]
            let max_log = (2f64.powi(-13) / u).log2();
            let lk = r.uniform(0.0, max_log);
            let kappa = lk.exp2();
            let base = *r.pick(&[1.0, 0.1, 1234.5, 1e-6, 7e7]) * if spec.positive || r.bool() { 1.0 } else { -1.0 };
            let rel = 1.0 / kappa.sqrt();
            for _ in 0..n {
                v.push(base * (1.0 + rel * (r.f64() - 0.5) * 3.4));
            }
        }
        Family::Progression => {
            let a = if spec.positive { r.uniform(0.1, 10.0) } else { r.uniform(-100.0, 100.0) };
            let d = r.uniform(0.001, 5.0);
            for i in 0..n {
                v.push(a + d * i as f64);
            }
            if r.bool() {
                r.shuffle(&mut v);
            }
        }
        Family::SumAdversarial => {
            // large, many small, -large(ish)
            let big = (r.range(10, 30) as f64).exp2() * (1.0 + r.f64());
            for i in 0..n {
                if i == 0 {
                    v.push(big);
                } else if i == n - 1 && n > 2 && !spec.positive {
                    v.push(-big * r.uniform(0.5, 0.999));
                } else {
                    v.push(r.uniform(0.1, 2.0));
                }
            }
        }
        Family::Dyadic => {
            // multiples of 2^-k in a small range: sums and squares are exact in f32/f64
            let k = r.range(0, 4);
            let lo = if spec.positive { 1 } else { -64 };
            for _ in 0..n {
                v.push(r.range(lo, 64) as f64 * (-(k as f64)).exp2());
            }
        }
        Family::PositiveWide => {
            let centre = r.range(-20, 20) as f64;
            let span = r.range(1, if spec.f32 { 20 } else { 60 }) as f64;
            for _ in 0..n {
                let e = centre + r.uniform(-span, span);
                v.push((1.0 + r.f64()) * e.exp2());
            }
        }
        Family::Constant => {
            let k = *r.pick(&[1.0, 2.5, 0.375, 1024.0, 3.0]) * if spec.positive || r.bool() { 1.0 } else { -1.0 };
            v.resize(n, k);
        }
        Family::PositiveNarrow => {
            let base = *r.pick(&[1.0, 0.37, 42.0, 1e4, 3e-5]);
            let rel = *r.pick(&[0.5, 0.1, 0.01]);
            for _ in 0..n {
                v.push(base * (1.0 + rel * r.f64()));
            }
        }
    }
    if spec.f32 {
        for x in v.iter_mut() {
            *x = (*x as f32) as f64;
        }
    }
    if spec.positive {
        for x in v.iter_mut() {
            if !(*x > 0.0) {
                *x = if spec.f32 { 1.0 } else { 1.0 };
            }
        }
    }
    // guarantee a non-degenerate sample where the family intends one
    if n >= 2 && spec.family != Family::Constant && v.iter().all(|x| *x == v[0]) {
        v[1] = if spec.f32 { ((v[0] as f32) * 1.5 + 1.0) as f64 } else { v[0] * 1.5 + 1.0 };
    }
    v
}

pub fn to_f32(v: &[f64]) -> Vec<f32> {
    v.iter().map(|x| *x as f32).collect()
}

/// all permutations of 0..n (Heap's algorithm), n <= 8
pub fn permutations(n: usize) -> Vec<Vec<usize>> {
    let mut out = vec![];
    let mut a: Vec<usize> = (0..n).collect();
    let mut c = vec![0usize; n];
    out.push(a.clone());
    let mut i = 0;
    while i < n {
        if c[i] < i {
            if i % 2 == 0 {
                a.swap(0, i);
            } else {
                a.swap(c[i], i);
            }
            out.push(a.clone());
            c[i] += 1;
            i = 0;
        } else {
            c[i] = 0;
            i += 1;
        }
    }
    out
}

/// sample-size ladder: 2..9 exhaustively, then random up to `max_random`, then the fixed large ones
pub fn pick_len(r: &mut Rng, i: u64, large: &[usize]) -> usize {
    match i % 16 {
        0..=7 => 2 + (i % 8) as usize,
        8..=12 => r.range(10, 200) as usize,
        13 => *r.pick(&[1000usize, 317, 2048]),
        14 => *r.pick(&[10_000usize, 4097]),
        _ => {
            if large.is_empty() {
                r.range(10, 200) as usize
            } else {
                *r.pick(large)
            }
        }
    }
}
