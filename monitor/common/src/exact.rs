//! O-exact: exact dyadic-rational arithmetic on finite f32/f64 values (num-bigint).
//! Shares no code with the crate under test.

use num_bigint::{BigInt, Sign};
use num_traits::{One, Signed, ToPrimitive, Zero};

/// m * 2^e, exactly.
#[derive(Clone, Debug, PartialEq)]
pub struct Dy {
    pub m: BigInt,
    pub e: i64,
}

pub fn decompose(x: f64) -> (i64, i64) {
    // returns (m, e) with x == m * 2^e exactly; x must be finite
    debug_assert!(x.is_finite());
    let bits = x.to_bits();
    let sign = if bits >> 63 == 1 { -1i64 } else { 1 };
    let exp = ((bits >> 52) & 0x7ff) as i64;
    let frac = (bits & 0xfffffffffffff) as i64;
    if exp == 0 {
        (sign * frac, -1074)
    } else {
        (sign * (frac | (1 << 52)), exp - 1075)
    }
}

impl Dy {
    pub fn zero() -> Dy {
        Dy { m: BigInt::zero(), e: 0 }
    }
    pub fn from_f64(x: f64) -> Dy {
        let (m, e) = decompose(x);
        Dy { m: BigInt::from(m), e }
    }
    pub fn from_i64(x: i64) -> Dy {
        Dy { m: BigInt::from(x), e: 0 }
    }
    pub fn is_zero(&self) -> bool {
        self.m.is_zero()
    }
    fn align(a: &Dy, b: &Dy) -> (BigInt, BigInt, i64) {
        let e = a.e.min(b.e);
        (&a.m << ((a.e - e) as usize), &b.m << ((b.e - e) as usize), e)
    }
    pub fn add(&self, o: &Dy) -> Dy {
        let (a, b, e) = Dy::align(self, o);
        Dy { m: a + b, e }
    }
    pub fn sub(&self, o: &Dy) -> Dy {
        let (a, b, e) = Dy::align(self, o);
        Dy { m: a - b, e }
    }
    pub fn mul(&self, o: &Dy) -> Dy {
        Dy { m: &self.m * &o.m, e: self.e + o.e }
    }
    pub fn mul_i(&self, k: i64) -> Dy {
        Dy { m: &self.m * k, e: self.e }
    }
    pub fn neg(&self) -> Dy {
        Dy { m: -&self.m, e: self.e }
    }
    pub fn abs(&self) -> Dy {
        Dy { m: self.m.abs(), e: self.e }
    }
    pub fn scale2(&self, k: i64) -> Dy {
        Dy { m: self.m.clone(), e: self.e + k }
    }
    pub fn signum(&self) -> i32 {
        match self.m.sign() {
            Sign::Minus => -1,
            Sign::NoSign => 0,
            Sign::Plus => 1,
        }
    }
    pub fn cmp(&self, o: &Dy) -> std::cmp::Ordering {
        let (a, b, _) = Dy::align(self, o);
        a.cmp(&b)
    }
    /// nearest-ish f64 (error <= 1 ulp; exact when representable)
    pub fn to_f64(&self) -> f64 {
        ratio_to_f64(&self.m, &BigInt::one(), self.e)
    }
}

/// (num / den) * 2^e as f64, error <= 1 ulp (truncation of a 64-bit quotient then rounding)
pub fn ratio_to_f64(num: &BigInt, den: &BigInt, e: i64) -> f64 {
    if num.is_zero() {
        return 0.0;
    }
    assert!(!den.is_zero());
    let neg = (num.sign() == Sign::Minus) != (den.sign() == Sign::Minus);
    let n = num.abs();
    let d = den.abs();
    // scale so that the quotient has about 70 significant bits
    let nb = n.bits() as i64;
    let db = d.bits() as i64;
    let shift = 70 - (nb - db);
    let q: BigInt = if shift >= 0 { (&n << (shift as usize)) / &d } else { (&n >> ((-shift) as usize)) / &d };
    // q has 69..71 bits; convert the top 64 bits
    let qb = q.bits() as i64;
    let drop = (qb - 64).max(0);
    let top: u64 = (&q >> (drop as usize)).to_u64().unwrap();
    let exp2 = e - shift + drop;
    let v = scale_pow2(top as f64, exp2);
    if neg {
        -v
    } else {
        v
    }
}

/// x * 2^k without intermediate overflow/underflow surprises
pub fn scale_pow2(mut x: f64, mut k: i64) -> f64 {
    while k > 1000 {
        x *= 2f64.powi(1000);
        k -= 1000;
        if x.is_infinite() {
            return x;
        }
    }
    while k < -1000 {
        x *= 2f64.powi(-1000);
        k += 1000;
        if x == 0.0 {
            return x;
        }
    }
    x * 2f64.powi(k as i32)
}

/// Exact rational num/den * 2^e with den a positive integer.
#[derive(Clone, Debug)]
pub struct Rat {
    pub num: Dy,
    pub den: BigInt,
}

impl Rat {
    pub fn new(num: Dy, den: BigInt) -> Rat {
        assert!(den.is_positive());
        Rat { num, den }
    }
    pub fn from_dy(d: Dy) -> Rat {
        Rat { num: d, den: BigInt::one() }
    }
    pub fn to_f64(&self) -> f64 {
        ratio_to_f64(&self.num.m, &self.den, self.num.e)
    }
    /// (x - self) as f64, formed exactly before the single final rounding
    pub fn diff_from(&self, x: f64) -> f64 {
        if !x.is_finite() {
            return f64::NAN;
        }
        let xd = Dy::from_f64(x);
        let scaled = Dy { m: &xd.m * &self.den, e: xd.e };
        let d = scaled.sub(&self.num);
        ratio_to_f64(&d.m, &self.den, d.e)
    }
    pub fn sub(&self, o: &Rat) -> Rat {
        let a = Dy { m: &self.num.m * &o.den, e: self.num.e };
        let b = Dy { m: &o.num.m * &self.den, e: o.num.e };
        Rat { num: a.sub(&b), den: &self.den * &o.den }
    }
    pub fn add(&self, o: &Rat) -> Rat {
        let a = Dy { m: &self.num.m * &o.den, e: self.num.e };
        let b = Dy { m: &o.num.m * &self.den, e: o.num.e };
        Rat { num: a.add(&b), den: &self.den * &o.den }
    }
    pub fn signum(&self) -> i32 {
        self.num.signum()
    }
}

/// Exact accumulator for sums of values and of squares: buckets by exponent (i128), flushed to
/// BigInt. O(n) with a small constant; exact for any length.
pub struct ExactAcc {
    // sum x
    s_b: Vec<i128>, // index: exponent + 1074  (0..2046+)
    // sum |x|
    a_b: Vec<i128>,
    // sum x^2: exponent 2e in -2148 .. 1942 -> index 2e + 2148 (even only; we index by e+1074)
    q_b: Vec<i128>,
    q_big: Vec<BigInt>,
    q_pending: u32,
    s_pending: u64,
    s_big: Vec<BigInt>,
    a_big: Vec<BigInt>,
    pub n: u64,
}

const NB: usize = 2100;

impl Default for ExactAcc {
    fn default() -> Self {
        Self::new()
    }
}

impl ExactAcc {
    pub fn new() -> Self {
        ExactAcc {
            s_b: vec![0; NB],
            a_b: vec![0; NB],
            q_b: vec![0; NB],
            q_big: vec![],
            q_pending: 0,
            s_pending: 0,
            s_big: vec![],
            a_big: vec![],
            n: 0,
        }
    }
    #[inline]
    pub fn push(&mut self, x: f64) {
        let (m, e) = decompose(x);
        let i = (e + 1074) as usize;
        self.s_b[i] += m as i128;
        self.a_b[i] += (m as i128).abs();
        self.q_b[i] += (m as i128) * (m as i128);
        self.n += 1;
        self.q_pending += 1;
        self.s_pending += 1;
        if self.q_pending >= (1 << 20) {
            self.flush_q();
        }
        if self.s_pending >= (1u64 << 60) {
            self.flush_s();
        }
    }
    fn flush_q(&mut self) {
        if self.q_big.is_empty() {
            self.q_big = vec![BigInt::zero(); NB];
        }
        for i in 0..NB {
            if self.q_b[i] != 0 {
                self.q_big[i] += BigInt::from(self.q_b[i]);
                self.q_b[i] = 0;
            }
        }
        self.q_pending = 0;
    }
    fn flush_s(&mut self) {
        if self.s_big.is_empty() {
            self.s_big = vec![BigInt::zero(); NB];
            self.a_big = vec![BigInt::zero(); NB];
        }
        for i in 0..NB {
            if self.s_b[i] != 0 {
                self.s_big[i] += BigInt::from(self.s_b[i]);
                self.s_b[i] = 0;
            }
            if self.a_b[i] != 0 {
                self.a_big[i] += BigInt::from(self.a_b[i]);
                self.a_b[i] = 0;
            }
        }
        self.s_pending = 0;
    }
    pub fn extend(&mut self, xs: &[f64]) {
        for &x in xs {
            self.push(x);
        }
    }
    pub fn extend32(&mut self, xs: &[f32]) {
        for &x in xs {
            self.push(x as f64);
        }
    }
    fn collect(buckets: &[i128], big: &[BigInt], exp_of: impl Fn(usize) -> i64) -> Dy {
        // find the lowest non-empty bucket
        let mut lo = None;
        for i in 0..NB {
            if buckets[i] != 0 || (!big.is_empty() && !big[i].is_zero()) {
                lo = Some(i);
                break;
            }
        }
        let lo = match lo {
            Some(l) => l,
            None => return Dy::zero(),
        };
        let e0 = exp_of(lo);
        let mut m = BigInt::zero();
        for i in (lo..NB).rev() {
            let mut v = BigInt::from(buckets[i]);
            if !big.is_empty() {
                v += &big[i];
            }
            if !v.is_zero() {
                m += v << ((exp_of(i) - e0) as usize);
            }
        }
        Dy { m, e: e0 }
    }
    /// S = sum x
    pub fn sum(&self) -> Dy {
        Self::collect(&self.s_b, &self.s_big, |i| i as i64 - 1074)
    }
    /// A = sum |x|
    pub fn abs_sum(&self) -> Dy {
        Self::collect(&self.a_b, &self.a_big, |i| i as i64 - 1074)
    }
    /// Q = sum x^2
    pub fn sum_sq(&self) -> Dy {
        Self::collect(&self.q_b, &self.q_big, |i| 2 * (i as i64 - 1074))
    }
}

/// Exact sample statistics of a data set.
#[derive(Clone, Debug)]
pub struct ExactStats {
    pub n: u64,
    pub s: Dy,
    pub a: Dy,
    pub q: Dy,
    /// mean = S/n
    pub mean: Rat,
    /// (n-1)-variance = (n Q - S^2) / (n (n-1)); None when n < 2
    pub var: Option<Rat>,
    pub mean_f: f64,
    pub var_f: f64,
    pub sd_f: f64,
    pub a_f: f64,
    pub q_f: f64,
    /// kappa = Q / ((n-1) V)  (>= ~1; large when |mean| >> spread); inf when V == 0
    pub kappa: f64,
}

pub fn stats_of_acc(acc: &ExactAcc) -> ExactStats {
    let n = acc.n;
    let s = acc.sum();
    let a = acc.abs_sum();
    let q = acc.sum_sq();
    let nb = BigInt::from(n.max(1));
    let mean = Rat::new(s.clone(), nb.clone());
    let mean_f = mean.to_f64();
    let a_f = a.to_f64();
    let q_f = q.to_f64();
    let (var, var_f, sd_f, kappa) = if n >= 2 {
        let num = q.mul_i(n as i64).sub(&s.mul(&s));
        let den = BigInt::from(n) * BigInt::from(n - 1);
        let v = Rat::new(num, den);
        let vf = v.to_f64();
        let kappa = if vf > 0.0 { q_f / ((n - 1) as f64 * vf) } else { f64::INFINITY };
        (Some(v), vf, vf.sqrt(), kappa)
    } else {
        (None, f64::NAN, f64::NAN, f64::NAN)
    };
    ExactStats { n, s, a, q, mean, var, mean_f, var_f, sd_f, a_f, q_f, kappa }
}

pub fn stats_f64(xs: &[f64]) -> ExactStats {
    let mut acc = ExactAcc::new();
    acc.extend(xs);
    stats_of_acc(&acc)
}

pub fn stats_f32(xs: &[f32]) -> ExactStats {
    let mut acc = ExactAcc::new();
    acc.extend32(xs);
    stats_of_acc(&acc)
}

/// exact sum of f64 values as a Dy
pub fn exact_sum(xs: &[f64]) -> (Dy, Dy) {
    let mut acc = ExactAcc::new();
    acc.extend(xs);
    (acc.sum(), acc.abs_sum())
}

/// ulp of an f64 (spacing above |x|)
pub fn ulp64(x: f64) -> f64 {
    let a = x.abs();
    if !a.is_finite() {
        return f64::NAN;
    }
    let b = f64::from_bits(a.to_bits() + 1);
    b - a
}
pub fn ulp32(x: f32) -> f32 {
    let a = x.abs();
    if !a.is_finite() {
        return f32::NAN;
    }
    let b = f32::from_bits(a.to_bits() + 1);
    b - a
}

/// distance in ulps (of the f64 grid) between two finite doubles of the same sign region
pub fn ulps_apart64(a: f64, b: f64) -> u64 {
    fn key(x: f64) -> i64 {
        let b = x.to_bits() as i64;
        if b < 0 {
            i64::MIN - b
        } else {
            b
        }
    }
    (key(a) as i128 - key(b) as i128).unsigned_abs().min(u64::MAX as u128) as u64
}
pub fn ulps_apart32(a: f32, b: f32) -> u64 {
    fn key(x: f32) -> i32 {
        let b = x.to_bits() as i32;
        if b < 0 {
            i32::MIN - b
        } else {
            b
        }
    }
    (key(a) as i64 - key(b) as i64).unsigned_abs()
}

#[cfg(test)]
mod tests {
    use super::*;
    #[test]
    fn basic() {
        let xs = [1.0, 2.0, 3.0, 4.0];
        let st = stats_f64(&xs);
        assert_eq!(st.mean_f, 2.5);
        assert!((st.var_f - 5.0 / 3.0).abs() < 1e-15);
        let st = stats_f64(&[0.1, 0.1, 0.1]);
        assert_eq!(st.var_f, 0.0);
        assert_eq!(st.mean_f, 0.1);
        assert_eq!(Dy::from_f64(0.1).to_f64(), 0.1);
        assert_eq!(Dy::from_f64(-5e-324).to_f64(), -5e-324);
        assert_eq!(Dy::from_f64(1e300).to_f64(), 1e300);
        let r = Rat::new(Dy::from_i64(1), BigInt::from(3));
        assert!((r.to_f64() - 1.0 / 3.0).abs() < 1e-16);
        assert!((r.diff_from(1.0 / 3.0)).abs() < 1e-16);
    }
}
