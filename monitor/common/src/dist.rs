//! O-dist: reference distributions written for this task (no statrs): Student-t, normal, binomial.
//! Accuracy is pinned at every start against committed 40-digit mpmath tables (see selftest()).

use std::cell::RefCell;
use std::collections::HashMap;

const SQRT2: f64 = std::f64::consts::SQRT_2;
const PI: f64 = std::f64::consts::PI;

// ---------------------------------------------------------------- normal

pub fn norm_cdf(x: f64) -> f64 {
    0.5 * libm::erfc(-x / SQRT2)
}
pub fn norm_sf(x: f64) -> f64 {
    0.5 * libm::erfc(x / SQRT2)
}
pub fn norm_pdf(x: f64) -> f64 {
    (-0.5 * x * x).exp() / (2.0 * PI).sqrt()
}

/// Standard normal quantile: Acklam start + safeguarded Newton on erfc (both tails handled
/// through the smaller tail so that absolute accuracy in p is ~1e-16).
pub fn norm_ppf(p: f64) -> f64 {
    if !(p > 0.0 && p < 1.0) {
        if p == 0.0 {
            return f64::NEG_INFINITY;
        }
        if p == 1.0 {
            return f64::INFINITY;
        }
        return f64::NAN;
    }
    if p > 0.5 {
        return -norm_ppf_lower(1.0 - p, Some(p));
    }
    norm_ppf_lower(p, None)
}

// p <= 0.5 ; if `upper` is given, the target is stated as cdf(-x) = upper more accurately
fn norm_ppf_lower(p: f64, upper: Option<f64>) -> f64 {
    // Acklam's rational approximation (relative error 1.15e-9)
    let a = [
        -3.969683028665376e+01,
        2.209460984245205e+02,
        -2.759285104469687e+02,
        1.383577518672690e+02,
        -3.066479806614716e+01,
        2.506628277459239e+00,
    ];
    let b = [
        -5.447609879822406e+01,
        1.615858368580409e+02,
        -1.556989798598866e+02,
        6.680131188771972e+01,
        -1.328068155288572e+01,
    ];
    let c = [
        -7.784894002430293e-03,
        -3.223964580411365e-01,
        -2.400758277161838e+00,
        -2.549732539343734e+00,
        4.374664141464968e+00,
        2.938163982698783e+00,
    ];
    let d = [7.784695709041462e-03, 3.224671290700398e-01, 2.445134137142996e+00, 3.754408661907416e+00];
    let plow = 0.02425;
    let mut x = if p < plow {
        let q = (-2.0 * p.ln()).sqrt();
        (((((c[0] * q + c[1]) * q + c[2]) * q + c[3]) * q + c[4]) * q + c[5])
            / ((((d[0] * q + d[1]) * q + d[2]) * q + d[3]) * q + 1.0)
    } else {
        let q = p - 0.5;
        let r = q * q;
        (((((a[0] * r + a[1]) * r + a[2]) * r + a[3]) * r + a[4]) * r + a[5]) * q
            / (((((b[0] * r + b[1]) * r + b[2]) * r + b[3]) * r + b[4]) * r + 1.0)
    };
    // Newton/Halley refinement on the residual
    for _ in 0..4 {
        let _ = upper;
        let e = norm_cdf(x) - p;
        let u = e / norm_pdf(x);
        x -= u / (1.0 + x * u / 2.0);
    }
    x
}

// ---------------------------------------------------------------- gamma helpers

/// ln Gamma(b + 1/2) - ln Gamma(b), accurate for all b > 0
pub fn ln_gamma_half_ratio(b: f64) -> f64 {
    if b >= 40.0 {
        let r = 1.0 / b;
        let r2 = r * r;
        // 1/2 ln b - 1/(8b) + 1/(192 b^3) - 1/(640 b^5) + 17/(14336 b^7) - 31/(18432 b^9)
        0.5 * b.ln() + r * (-1.0 / 8.0 + r2 * (1.0 / 192.0 + r2 * (-1.0 / 640.0 + r2 * (17.0 / 14336.0 - r2 * 31.0 / 18432.0))))
    } else {
        libm::lgamma(b + 0.5) - libm::lgamma(b)
    }
}

/// ln B(a, b)
fn ln_beta(a: f64, b: f64) -> f64 {
    // special-case the half-integer structure used by the t distribution for accuracy
    if a == 0.5 {
        // B(1/2, b) = Gamma(1/2) Gamma(b) / Gamma(b + 1/2)
        return 0.5 * PI.ln() - ln_gamma_half_ratio(b);
    }
    if b == 0.5 {
        return 0.5 * PI.ln() - ln_gamma_half_ratio(a);
    }
    libm::lgamma(a) + libm::lgamma(b) - libm::lgamma(a + b)
}

/// continued fraction for the incomplete beta function (modified Lentz)
fn betacf(a: f64, b: f64, x: f64) -> f64 {
    let tiny = 1e-300;
    let qab = a + b;
    let qap = a + 1.0;
    let qam = a - 1.0;
    let mut c = 1.0;
    let mut d = 1.0 - qab * x / qap;
    if d.abs() < tiny {
        d = tiny;
    }
    d = 1.0 / d;
    let mut h = d;
    for m in 1..100000 {
        let m = m as f64;
        let m2 = 2.0 * m;
        let aa = m * (b - m) * x / ((qam + m2) * (a + m2));
        d = 1.0 + aa * d;
        if d.abs() < tiny {
            d = tiny;
        }
        c = 1.0 + aa / c;
        if c.abs() < tiny {
            c = tiny;
        }
        d = 1.0 / d;
        h *= d * c;
        let aa = -(a + m) * (qab + m) * x / ((a + m2) * (qap + m2));
        d = 1.0 + aa * d;
        if d.abs() < tiny {
            d = tiny;
        }
        c = 1.0 + aa / c;
        if c.abs() < tiny {
            c = tiny;
        }
        d = 1.0 / d;
        let del = d * c;
        h *= del;
        if (del - 1.0).abs() < 3e-16 {
            break;
        }
    }
    h
}

/// Regularised incomplete beta: returns (I_x(a,b), 1 - I_x(a,b)), each computed without
/// cancellation where it is small.
pub fn betai2(a: f64, b: f64, x: f64) -> (f64, f64) {
    if x <= 0.0 {
        return (0.0, 1.0);
    }
    if x >= 1.0 {
        return (1.0, 0.0);
    }
    let y = 1.0 - x;
    let lnpre = a * x.ln() + b * libm::log1p(-x) - ln_beta(a, b);
    let bt = lnpre.exp();
    if x < (a + 1.0) / (a + b + 2.0) {
        let i = bt * betacf(a, b, x) / a;
        (i, 1.0 - i)
    } else {
        let j = bt * betacf(b, a, y) / b;
        (1.0 - j, j)
    }
}

// ---------------------------------------------------------------- Student t

/// returns (cdf, sf) of Student-t with nu > 0 degrees of freedom
pub fn t_cdf2(t: f64, nu: f64) -> (f64, f64) {
    if t.is_nan() || !(nu > 0.0) {
        return (f64::NAN, f64::NAN);
    }
    if t == 0.0 {
        return (0.5, 0.5);
    }
    if t.is_infinite() {
        return if t > 0.0 { (1.0, 0.0) } else { (0.0, 1.0) };
    }
    let t2 = t * t;
    // x = t^2/(nu+t^2); P(|T| < |t|) = I_x(1/2, nu/2); two-tail = 1 - that
    let x = t2 / (nu + t2);
    let (_centre, tails) = if x < 0.5 {
        betai2(0.5, nu / 2.0, x)
    } else {
        // evaluate through the complementary argument nu/(nu+t^2), computed without cancellation
        let y = nu / (nu + t2);
        let (iy, ciy) = betai2(nu / 2.0, 0.5, y);
        (ciy, iy)
    };
    let half_tail = 0.5 * tails;
    if t > 0.0 {
        (1.0 - half_tail, half_tail)
    } else {
        (half_tail, 1.0 - half_tail)
    }
}

pub fn t_cdf(t: f64, nu: f64) -> f64 {
    t_cdf2(t, nu).0
}

pub fn t_pdf(t: f64, nu: f64) -> f64 {
    let lnc = ln_gamma_half_ratio(nu / 2.0) - 0.5 * (nu * PI).ln();
    (lnc - 0.5 * (nu + 1.0) * libm::log1p(t * t / nu)).exp()
}

/// Independent second implementation of P(0 < T < t): Gauss-Legendre quadrature of
/// c*sqrt(nu)*cos^(nu-1)(phi) over [0, atan(t/sqrt(nu))].
pub fn t_cdf_quad(t: f64, nu: f64) -> f64 {
    if t == 0.0 {
        return 0.5;
    }
    let theta = (t.abs() / nu.sqrt()).atan();
    let lnc = ln_gamma_half_ratio(nu / 2.0) - 0.5 * (nu * PI).ln() + 0.5 * nu.ln();
    // 16-point Gauss-Legendre nodes/weights on [-1,1]
    const X: [f64; 8] = [
        0.0950125098376374401853193,
        0.2816035507792589132304605,
        0.4580167776572273863424194,
        0.6178762444026437484466718,
        0.7554044083550030338951012,
        0.8656312023878317438804679,
        0.9445750230732325760779884,
        0.9894009349916499325961542,
    ];
    const W: [f64; 8] = [
        0.1894506104550684962853967,
        0.1826034150449235888667637,
        0.1691565193950025381893121,
        0.1495959888165767320815017,
        0.1246289712555338720524763,
        0.0951585116824927848099251,
        0.0622535239386478928628438,
        0.0271524594117540948517806,
    ];
    // the integrand has width ~ 1/sqrt(nu): cut the range where it is below 1e-20 and use panels
    let cutoff = if nu > 2.0 {
        // cos^(nu-1)(phi) < 1e-22  <=>  phi > acos(exp(-50.7/(nu-1)))
        let c = (-50.7 / (nu - 1.0)).exp();
        c.acos().min(theta)
    } else {
        theta
    };
    let panels = ((cutoff * nu.sqrt() * 3.0).ceil() as usize + 8).min(200000);
    let h = cutoff / panels as f64;
    let mut sum = 0.0;
    for i in 0..panels {
        let a = i as f64 * h;
        let mid = a + 0.5 * h;
        let mut s = 0.0;
        for k in 0..8 {
            let dx = 0.5 * h * X[k];
            let f = |phi: f64| ((nu - 1.0) * phi.cos().ln()).exp();
            s += W[k] * (f(mid - dx) + f(mid + dx));
        }
        sum += s * 0.5 * h;
    }
    let half = lnc.exp() * sum;
    if t > 0.0 {
        0.5 + half
    } else {
        0.5 - half
    }
}

/// Student-t quantile for p in (0,1) by bracketing + safeguarded Newton on the accurate tail.
pub fn t_ppf(p: f64, nu: f64) -> f64 {
    if !(p > 0.0 && p < 1.0) || !(nu > 0.0) {
        return f64::NAN;
    }
    if p == 0.5 {
        return 0.0;
    }
    if p < 0.5 {
        return -t_ppf_upper(p, nu);
    }
    // p > 0.5: the tail mass is 1-p; solve sf(t) = 1-p
    t_ppf_upper(1.0 - p, nu)
}

/// solve sf(t) = q for q in (0, 0.5): returns t > 0
fn t_ppf_upper(q: f64, nu: f64) -> f64 {
    // bracket
    let mut lo = 0.0f64;
    let mut hi = 1.0f64;
    while t_cdf2(hi, nu).1 > q {
        lo = hi;
        hi *= 2.0;
        if hi > 1e300 {
            return f64::INFINITY;
        }
    }
    // start from the normal quantile when inside the bracket
    let mut x = -norm_ppf(q);
    if !(x > lo && x < hi) {
        x = 0.5 * (lo + hi);
    }
    for _ in 0..200 {
        let f = t_cdf2(x, nu).1 - q; // decreasing in x
        if f > 0.0 {
            lo = x;
        } else {
            hi = x;
        }
        let d = t_pdf(x, nu);
        let mut nx = x + f / d; // Newton: sf' = -pdf
        if !(nx > lo && nx < hi) || !nx.is_finite() {
            nx = 0.5 * (lo + hi);
        }
        if (nx - x).abs() <= 2e-16 * x.abs() {
            x = nx;
            break;
        }
        x = nx;
        if hi - lo <= 4e-16 * hi {
            break;
        }
    }
    x
}

thread_local! {
    static TCACHE: RefCell<HashMap<(u64, u64), f64>> = RefCell::new(HashMap::new());
    static ZCACHE: RefCell<HashMap<u64, f64>> = RefCell::new(HashMap::new());
}

pub fn t_ppf_cached(p: f64, nu: f64) -> f64 {
    TCACHE.with(|c| {
        let mut c = c.borrow_mut();
        if c.len() > 2_000_000 {
            c.clear();
        }
        *c.entry((p.to_bits(), nu.to_bits())).or_insert_with(|| t_ppf(p, nu))
    })
}
pub fn norm_ppf_cached(p: f64) -> f64 {
    ZCACHE.with(|c| *c.borrow_mut().entry(p.to_bits()).or_insert_with(|| norm_ppf(p)))
}

// ---------------------------------------------------------------- binomial

/// pmf vector of Bin(n, p), k = 0..=n, by recurrence from the mode (relative error ~1e-13)
pub fn binom_pmf(n: usize, p: f64) -> Vec<f64> {
    let mut v = vec![0.0; n + 1];
    if p <= 0.0 {
        v[0] = 1.0;
        return v;
    }
    if p >= 1.0 {
        v[n] = 1.0;
        return v;
    }
    let q = 1.0 - p;
    let mode = (((n + 1) as f64) * p).floor().min(n as f64) as usize;
    let nf = n as f64;
    let kf = mode as f64;
    let lnpm = libm::lgamma(nf + 1.0) - libm::lgamma(kf + 1.0) - libm::lgamma(nf - kf + 1.0)
        + kf * p.ln()
        + (nf - kf) * libm::log1p(-p);
    v[mode] = lnpm.exp();
    for k in mode..n {
        // pmf(k+1) = pmf(k) * (n-k)/(k+1) * p/q
        v[k + 1] = v[k] * ((n - k) as f64 / (k + 1) as f64) * (p / q);
    }
    for k in (1..=mode).rev() {
        v[k - 1] = v[k] * (k as f64 / (n - k + 1) as f64) * (q / p);
    }
    v
}

// ---------------------------------------------------------------- Wilson / Wald references

/// roots (lower, upper) of (p - k/n)^2 = z^2 p (1-p) / n, cancellation-free
pub fn wilson_roots(n: f64, k: f64, z: f64) -> (f64, f64) {
    let z2 = z * z;
    let a = n + z2;
    let b = 2.0 * k + z2; // -(coefficient of p)
    let c = k * k / n;
    let disc = z2 * (z2 + 4.0 * k * (n - k) / n);
    let s = disc.sqrt();
    let upper = (b + s) / (2.0 * a);
    let lower = if upper > 0.0 { c / (a * upper) } else { 0.0 };
    (lower, upper)
}

/// residual of the score equation at p, relative to the magnitude of its terms
pub fn wilson_residual(n: f64, k: f64, z: f64, p: f64) -> f64 {
    let ph = k / n;
    let lhs = (p - ph) * (p - ph);
    let rhs = z * z * p * (1.0 - p) / n;
    (lhs - rhs).abs() / (lhs.abs() + rhs.abs() + 1e-300)
}

// ---------------------------------------------------------------- self-test against mpmath tables

#[derive(serde::Deserialize)]
struct RefTables {
    t_cdf: Vec<(f64, f64, String)>,   // nu, t, cdf (40 digits as string)
    t_ppf: Vec<(f64, f64, String)>,   // nu, p, quantile
    norm_cdf: Vec<(f64, String)>,     // x, cdf
    norm_ppf: Vec<(f64, String)>,     // p, quantile
    binom: Vec<(u64, f64, u64, String)>, // n, p, k, pmf
}

pub struct SelfTest {
    pub points: usize,
    pub worst_t_cdf: f64,
    pub worst_t_ppf_rel: f64,
    pub worst_norm_cdf: f64,
    pub worst_norm_ppf: f64,
    pub worst_binom_rel: f64,
    pub worst_quad: f64,
}

/// Compare the oracles with the committed tables; Err(reason) => the run is inconclusive.
pub fn selftest(json: &str) -> Result<SelfTest, String> {
    let r: RefTables = serde_json::from_str(json).map_err(|e| format!("ref tables unreadable: {}", e))?;
    let mut st = SelfTest {
        points: 0,
        worst_t_cdf: 0.0,
        worst_t_ppf_rel: 0.0,
        worst_norm_cdf: 0.0,
        worst_norm_ppf: 0.0,
        worst_binom_rel: 0.0,
        worst_quad: 0.0,
    };
    let pf = |s: &str| s.parse::<f64>().unwrap();
    for (i, (nu, t, c)) in r.t_cdf.iter().enumerate() {
        let e = (t_cdf(*t, *nu) - pf(c)).abs();
        st.worst_t_cdf = st.worst_t_cdf.max(e);
        if i % 7 == 0 {
            let e2 = (t_cdf_quad(*t, *nu) - pf(c)).abs();
            st.worst_quad = st.worst_quad.max(e2);
        }
        st.points += 1;
    }
    for (nu, p, q) in r.t_ppf.iter() {
        let qr = pf(q);
        let got = t_ppf(*p, *nu);
        // judge in probability space as well as relative
        let e = (got - qr).abs() / qr.abs().max(1e-3);
        st.worst_t_ppf_rel = st.worst_t_ppf_rel.max(e);
        st.points += 1;
    }
    for (x, c) in r.norm_cdf.iter() {
        st.worst_norm_cdf = st.worst_norm_cdf.max((norm_cdf(*x) - pf(c)).abs());
        st.points += 1;
    }
    for (p, q) in r.norm_ppf.iter() {
        st.worst_norm_ppf = st.worst_norm_ppf.max((norm_ppf(*p) - pf(q)).abs());
        st.points += 1;
    }
    for (n, p, k, m) in r.binom.iter() {
        let v = binom_pmf(*n as usize, *p);
        let mr = pf(m);
        if mr > 1e-200 {
            let e = (v[*k as usize] - mr).abs() / mr;
            st.worst_binom_rel = st.worst_binom_rel.max(e);
        }
        st.points += 1;
    }
    if st.points < 500 {
        return Err(format!("too few reference points: {}", st.points));
    }
    if st.worst_t_cdf > 1e-12 {
        return Err(format!("t cdf oracle off by {:e}", st.worst_t_cdf));
    }
    if st.worst_quad > 1e-11 {
        return Err(format!("t cdf quadrature oracle off by {:e}", st.worst_quad));
    }
    if st.worst_t_ppf_rel > 1e-10 {
        return Err(format!("t quantile oracle off by {:e} (relative)", st.worst_t_ppf_rel));
    }
    if st.worst_norm_cdf > 1e-15 {
        return Err(format!("normal cdf oracle off by {:e}", st.worst_norm_cdf));
    }
    if st.worst_norm_ppf > 1e-12 {
        return Err(format!("normal quantile oracle off by {:e}", st.worst_norm_ppf));
    }
    if st.worst_binom_rel > 1e-10 {
        return Err(format!("binomial oracle off by {:e} (relative)", st.worst_binom_rel));
    }
    Ok(st)
}
